//! E3 `loommc`: exhaustive interleavings (bounded preemptions) of the real parity-db code under loom.
//!
//! The crate's `loom` feature swaps its Mutex / RwLock / Condvar for loom's; the four real worker loops run as
//! loom threads (hook H3), queue thresholds are scaled down (H7) so that throttling paths are reachable.
//! Every loom iteration runs on a fresh OS thread (fresh std RandomState counter; getrandom is pinned), stepped
//! through loom's checkpoint file, so that executions are a function of the schedule alone.

use parity_db::{verif::Worker, ColumnOptions, Db, Options};
use serde_json::json;
use std::path::PathBuf;
use std::sync::atomic::{AtomicU64, AtomicUsize, Ordering};
use std::sync::Arc;
use std::time::Instant;

/// recorder of file operations (libc interposition + store hook), shared with the sequential engine
#[path = "../../mc/src/crash.rs"]
#[allow(dead_code)]
mod crash;
mod core {
	pub fn fnv(data: &[u8], mut h: u64) -> u64 {
		for &b in data {
			h = (h ^ b as u64).wrapping_mul(0x100000001b3);
		}
		h
	}
}
mod search {
	pub fn workdir(tag: &str) -> std::path::PathBuf {
		crate::scratch().join(tag)
	}
}

#[no_mangle]
pub unsafe extern "C" fn getrandom(buf: *mut libc::c_void, len: usize, _flags: u32) -> isize {
	std::ptr::write_bytes(buf as *mut u8, 0x5a, len);
	len as isize
}

static ITER: AtomicU64 = AtomicU64::new(0);
/// harness-level event log of the current execution (printed with a failure when LOOMDBG is set)
static EVLOG: std::sync::Mutex<Vec<String>> = std::sync::Mutex::new(Vec::new());
fn ev(s: &str) {
	if let Ok(mut l) = EVLOG.lock() {
		l.push(s.to_string());
	}
}
/// failures of a listed known-finding class met during the exploration (the exploration goes on past them; the parent
/// reports each as KNOWN-FINDING if known_findings.jsonl lists it, as VIOLATION otherwise)
static TOLERATED: std::sync::Mutex<Vec<String>> = std::sync::Mutex::new(Vec::new());
fn tolerate(rendering: String) {
	// one example per class (the text before the event log)
	let class = rendering.split('[').next().unwrap_or("").to_string();
	let mut t = TOLERATED.lock().unwrap();
	if !t.iter().any(|x| x.starts_with(&class)) {
		t.push(rendering);
	}
}
fn ev_pos(name: &str) -> Option<usize> {
	EVLOG.lock().ok()?.iter().position(|e| e == name)
}
/// C11 known class F-C11-deferral-check-then-act: a process_commits call that began before the reader locked K1 was
/// still running when the lock was taken (its decision not to postpone the dereference predates the lock).
fn c11_race_window() -> bool {
	c11_race_window_for("R:locked")
}
fn c11_race_window_for(locked_event: &str) -> bool {
	let l = match EVLOG.lock() {
		Ok(l) => l.clone(),
		Err(_) => return false,
	};
	let locked = match l.iter().position(|e| e == locked_event) {
		Some(i) => i,
		None => return false,
	};
	let mut open: Option<usize> = None;
	for (i, e) in l.iter().enumerate() {
		if e == "pipe:P-start" {
			open = Some(i);
		} else if e == "pipe:P" {
			if let Some(st) = open {
				if st < locked && i > locked {
					return true
				}
			}
			open = None;
		}
	}
	// a call still running
	matches!(open, Some(st) if st < locked)
}
/// C11 known class F-C11-used-trees-computed-before-queueing: the pruner's dereference commit was queued while the
/// reader's InsertTree commit call was in progress (the insertion looked for pending dereferences of locked trees before
/// the dereference was registered, but was queued behind it).
fn c11_commit_overlap() -> bool {
	let l = match EVLOG.lock() {
		Ok(l) => l.clone(),
		Err(_) => return false,
	};
	let pos = |n: &str| l.iter().position(|e| e == n);
	match (pos("R:commit-K2-start"), pos("R:committed-K2"), pos("P:commit-start"), pos("P:committed-deref-K1")) {
		(Some(rs), Some(re), Some(ps), Some(pe)) => rs < pe && ps < re && pe < re,
		_ => false,
	}
}
fn ev_dump() -> String {
	EVLOG.lock().map(|l| l.join(" | ")).unwrap_or_default()
}
static DIRS: AtomicUsize = AtomicUsize::new(0);
static STAT_DRAINED: AtomicU64 = AtomicU64::new(0);
static STAT_ENACTED: AtomicU64 = AtomicU64::new(0);

fn scratch() -> PathBuf {
	let base = std::env::var("PDBMC_SCRATCH").unwrap_or_else(|_| "/dev/shm".into());
	PathBuf::from(format!("{}/pdbloom-{}", base, std::process::id()))
}

fn fresh_dir() -> PathBuf {
	let d = scratch().join(format!("db{}", DIRS.fetch_add(1, Ordering::SeqCst) % 4));
	let _ = std::fs::remove_dir_all(&d);
	std::fs::create_dir_all(&d).unwrap();
	d
}

fn options(dir: &std::path::Path, cols: Vec<ColumnOptions>, threads: bool) -> Options {
	let mut o = Options::with_columns(dir, cols.len() as u8);
	o.columns = cols;
	o.salt = Some([3; 32]);
	o.stats = false;
	o.with_background_thread = threads;
	o.always_flush = true;
	o
}

fn key(i: u8) -> Vec<u8> {
	vec![b'k', i, i.wrapping_mul(3), 7]
}

fn val(len: usize, seed: u8) -> Vec<u8> {
	(0..len).map(|i| (i as u8).wrapping_mul(31).wrapping_add(seed)).collect()
}

// ---------------------------------------------------------------------------------------------------
// scenarios

/// C15: the four real workers + a client committing `sizes` then dropping the handle at whatever point the
/// schedule has reached; afterwards (no threads) every accepted commit must be there.
fn c15_scenario(sizes: &'static [usize], second_client: bool) -> impl Fn() + Sync + Send + 'static {
	c15_scenario_w(sizes, second_client, 0b1111)
}

/// `mask`: which of the four workers run (log, flush, commit, cleanup); the others are 'infinitely slow'
fn c15_scenario_w(sizes: &'static [usize], second_client: bool, mask: u8) -> impl Fn() + Sync + Send + 'static {
	move || {
		ITER.fetch_add(1, Ordering::SeqCst);
		let dir = fresh_dir();
		parity_db::verif::set_external_workers(true);
		let opts = options(&dir, vec![ColumnOptions::default()], true);
		let db = Arc::new(Db::open_or_create(&opts).expect("open"));
		let mut workers = vec![];
		for (wi, w) in [Worker::Log, Worker::Flush, Worker::Commit, Worker::Cleanup].into_iter().enumerate() {
			if mask & (1 << wi) == 0 {
				continue
			}
			let db = db.clone();
			workers.push(loom::thread::spawn(move || db.verif_run_worker(w)));
		}
		let client2 = if second_client {
			let db = db.clone();
			Some(loom::thread::spawn(move || {
				db.commit(vec![(0u8, key(100), Some(val(40, 9)))]).expect("commit of the second client");
			}))
		} else {
			None
		};
		for (i, s) in sizes.iter().enumerate() {
			// an empty transaction when the size is 0
			let tx: Vec<(u8, Vec<u8>, Option<Vec<u8>>)> = if *s == 0 { vec![] } else { vec![(0u8, key(i as u8), Some(val(*s, i as u8)))] };
			db.commit(tx).expect("commit");
			// a voluntary scheduling point (not a preemption): the workers may or may not get to run here
			loom::thread::yield_now();
		}
		if let Some(c) = client2 {
			c.join().unwrap();
		}
		// drop = shutdown + join the workers + finish the leftovers
		db.verif_shutdown();
		for w in workers {
			w.join().unwrap();
		}
		{
			let d = db.verif_digest();
			if std::env::var("LOOMDBG").is_ok() && ITER.load(Ordering::SeqCst) < 4 {
				eprintln!("after join: queue={} appending={} readq={} reading={} cleanup={} next_record={} last_enacted={} logq={}", d.commit_queue_len, d.appending, d.read_queue, d.reading, d.cleanup_queue, d.next_record_id, d.last_enacted, d.log_queue_bytes);
			}
			if d.commit_queue_len == 0 {
				STAT_DRAINED.fetch_add(1, Ordering::SeqCst);
			}
			if d.last_enacted > 0 {
				STAT_ENACTED.fetch_add(1, Ordering::SeqCst);
			}
		}
		let db = Arc::try_unwrap(db).ok().expect("sole owner");
		drop(db);
		// reopen without threads: everything accepted must be there
		let opts = options(&dir, vec![ColumnOptions::default()], false);
		let db = Db::open(&opts).expect("reopen");
		for (i, s) in sizes.iter().enumerate() {
			if *s > 0 {
				assert_eq!(db.get(0, &key(i as u8)).unwrap(), Some(val(*s, i as u8)), "commit {} lost after drop + reopen", i);
			}
		}
		if second_client {
			assert_eq!(db.get(0, &key(100)).unwrap(), Some(val(40, 9)), "second client's commit lost after drop + reopen");
		}
		drop(db);
	}
}

/// C03 under threads: a client commits three order-sensitive transactions over a hash and a btree column (a key
/// written twice, a key written and removed again) and drops the handle at whatever point the workers have reached
/// (`mask`: which of the real worker loops run; the others never get to run before the drop). After the drop the
/// directory is opened without threads: all three transactions must be there, in order.
fn c03_drop_anywhere(mask: u8) -> impl Fn() + Sync + Send + 'static {
	move || {
		ITER.fetch_add(1, Ordering::SeqCst);
		let dir = fresh_dir();
		parity_db::verif::set_external_workers(true);
		let cols = vec![ColumnOptions::default(), ColumnOptions { btree_index: true, ..Default::default() }];
		let opts = options(&dir, cols.clone(), true);
		let db = Arc::new(Db::open_or_create(&opts).expect("open"));
		let mut workers = vec![];
		for (wi, w) in [Worker::Log, Worker::Flush, Worker::Commit, Worker::Cleanup].into_iter().enumerate() {
			if mask & (1 << wi) == 0 {
				continue
			}
			let db = db.clone();
			workers.push(loom::thread::spawn(move || db.verif_run_worker(w)));
		}
		let txs: Vec<Vec<(u8, Vec<u8>, Option<Vec<u8>>)>> = vec![
			vec![(0, key(1), Some(val(10, 1))), (1, key(1), Some(val(30, 2)))],
			vec![(0, key(1), Some(val(70, 3))), (0, key(2), Some(val(10, 4))), (1, key(2), Some(val(12, 5)))],
			vec![(0, key(2), None), (1, key(1), None), (1, key(3), Some(val(9, 6)))],
		];
		for tx in txs {
			db.commit(tx).expect("commit");
			loom::thread::yield_now();
		}
		db.verif_shutdown();
		for w in workers {
			w.join().unwrap();
		}
		let db = Arc::try_unwrap(db).ok().expect("sole owner");
		drop(db);
		let opts = options(&dir, cols, false);
		let db = Db::open(&opts).expect("reopen");
		assert_eq!(db.get(0, &key(1)).unwrap(), Some(val(70, 3)), "after drop + reopen: hash key 1 must hold the value of the second transaction");
		assert_eq!(db.get(0, &key(2)).unwrap(), None, "after drop + reopen: hash key 2 was removed by the third transaction");
		assert_eq!(db.get(1, &key(1)).unwrap(), None, "after drop + reopen: btree key 1 was removed by the third transaction");
		assert_eq!(db.get(1, &key(2)).unwrap(), Some(val(12, 5)), "after drop + reopen: btree key 2 must hold the value of the second transaction");
		assert_eq!(db.get(1, &key(3)).unwrap(), Some(val(9, 6)), "after drop + reopen: btree key 3 must hold the value of the third transaction");
		drop(db);
	}
}

/// C15 liveness: an accepted commit is logged by the workers without further client activity. The client commits
/// and then only watches the queue (yielding); with a worker that is never woken the watch loop never ends and
/// loom stops the execution at its branch limit.
fn c15_liveness(delete_only: bool, mask: u8) -> impl Fn() + Sync + Send + 'static {
	move || {
		ITER.fetch_add(1, Ordering::SeqCst);
		let dir = fresh_dir();
		parity_db::verif::set_external_workers(true);
		let opts = options(&dir, vec![ColumnOptions::default()], true);
		let db = Arc::new(Db::open_or_create(&opts).expect("open"));
		let mut workers = vec![];
		for (wi, w) in [Worker::Log, Worker::Flush, Worker::Commit, Worker::Cleanup].into_iter().enumerate() {
			if mask & (1 << wi) == 0 {
				continue
			}
			let db = db.clone();
			workers.push(loom::thread::spawn(move || db.verif_run_worker(w)));
		}
		let tx: Vec<(u8, Vec<u8>, Option<Vec<u8>>)> = if delete_only { vec![(0u8, key(1), None)] } else { vec![(0u8, key(1), Some(val(8, 1)))] };
		db.commit(tx).expect("commit");
		// no further client activity: the commit must reach the log on its own
		let mut spins = 0;
		while db.verif_digest().commit_queue_len > 0 {
			loom::thread::yield_now();
			spins += 1;
			assert!(spins < 200, "the accepted commit is still not logged after 200 yields of an otherwise idle client");
		}
		db.verif_shutdown();
		for w in workers {
			w.join().unwrap();
		}
		let db = Arc::try_unwrap(db).ok().expect("sole owner");
		drop(db);
	}
}

/// C15 liveness of the whole pipeline: the client commits `sizes` and then only watches (yielding): every commit
/// must be logged and every record enacted by the workers alone, without shutdown and without further commits.
fn c15_liveness_seq(sizes: &'static [usize], mask: u8) -> impl Fn() + Sync + Send + 'static {
	move || {
		ITER.fetch_add(1, Ordering::SeqCst);
		let dir = fresh_dir();
		parity_db::verif::set_external_workers(true);
		let opts = options(&dir, vec![ColumnOptions::default()], true);
		let db = Arc::new(Db::open_or_create(&opts).expect("open"));
		let mut workers = vec![];
		for (wi, w) in [Worker::Log, Worker::Flush, Worker::Commit, Worker::Cleanup].into_iter().enumerate() {
			if mask & (1 << wi) == 0 {
				continue
			}
			let db = db.clone();
			workers.push(loom::thread::spawn(move || db.verif_run_worker(w)));
		}
		for (i, s) in sizes.iter().enumerate() {
			db.commit(vec![(0u8, key(i as u8), Some(val(*s, i as u8)))]).expect("commit");
			loom::thread::yield_now();
		}
		let mut spins = 0;
		loop {
			let d = db.verif_digest();
			if d.commit_queue_len == 0 && d.last_enacted as usize == sizes.len() {
				break
			}
			loom::thread::yield_now();
			spins += 1;
			assert!(
				spins < 300,
				"after 300 yields of an otherwise idle client the pipeline has not drained: {} commits queued, {} of {} records enacted, {} log files waiting to be read, {} waiting for cleanup",
				d.commit_queue_len, d.last_enacted, sizes.len(), d.read_queue, d.cleanup_queue
			);
		}
		STAT_DRAINED.fetch_add(1, Ordering::SeqCst);
		STAT_ENACTED.fetch_add(1, Ordering::SeqCst);
		db.verif_shutdown();
		for w in workers {
			w.join().unwrap();
		}
		let db = Arc::try_unwrap(db).ok().expect("sole owner");
		drop(db);
	}
}

/// C15 backlog: `n` flushed log files are already waiting when the commit and cleanup workers start (the state a
/// slow commit worker is in); the workers alone must enact all of them although the number of files awaiting
/// cleanup passes its limit on the way.
fn c15_backlog(n: usize, mask: u8) -> impl Fn() + Sync + Send + 'static {
	move || {
		ITER.fetch_add(1, Ordering::SeqCst);
		let dir = fresh_dir();
		parity_db::verif::set_external_workers(true);
		let opts = options(&dir, vec![ColumnOptions::default()], true);
		let db = Arc::new(Db::open_or_create(&opts).expect("open"));
		for i in 0..n {
			db.commit(vec![(0u8, key(i as u8), Some(val(8, i as u8)))]).expect("commit");
			db.process_commits().unwrap();
			db.flush_logs().unwrap();
		}
		assert_eq!(db.verif_digest().read_queue, n, "harness: expected one flushed log file per commit");
		let mut workers = vec![];
		for (wi, w) in [Worker::Log, Worker::Flush, Worker::Commit, Worker::Cleanup].into_iter().enumerate() {
			if mask & (1 << wi) == 0 {
				continue
			}
			let db = db.clone();
			workers.push(loom::thread::spawn(move || db.verif_run_worker(w)));
		}
		let mut spins = 0;
		loop {
			let d = db.verif_digest();
			if d.last_enacted as usize == n {
				break
			}
			loom::thread::yield_now();
			spins += 1;
			assert!(
				spins < 300,
				"after 300 yields of an idle client the backlog is not enacted: {} of {} records enacted, {} log files waiting to be read, {} waiting for cleanup",
				d.last_enacted, n, d.read_queue, d.cleanup_queue
			);
		}
		STAT_DRAINED.fetch_add(1, Ordering::SeqCst);
		STAT_ENACTED.fetch_add(1, Ordering::SeqCst);
		db.verif_shutdown();
		for w in workers {
			w.join().unwrap();
		}
		let db = Arc::try_unwrap(db).ok().expect("sole owner");
		drop(db);
		let opts = options(&dir, vec![ColumnOptions::default()], false);
		let db = Db::open(&opts).expect("reopen");
		for i in 0..n {
			assert_eq!(db.get(0, &key(i as u8)).unwrap(), Some(val(8, i as u8)), "commit {} lost", i);
		}
		drop(db);
	}
}

static TRACES_SEEN: std::sync::Mutex<Option<std::collections::HashSet<u64>>> = std::sync::Mutex::new(None);
static STAT_TRACES: AtomicU64 = AtomicU64::new(0);

fn hex(b: &[u8]) -> String {
	b.iter().map(|x| format!("{:02x}", x)).collect()
}

/// C12 under threads: `n` commits are logged and flushed (one log file each) without threads, then the real commit
/// and cleanup workers (and optionally the others) enact and clean them concurrently. The file operations of the
/// whole execution are recorded in the order they happen; every distinct operation sequence is written out and
/// later judged by the sequential engine: each operation boundary of the threaded phase is a power-loss point
/// (all n commits were synced before the threads started, so every recovery must show all of them).
fn c12_backlog(name: &'static str, pb: usize, n: usize, mask: u8, wait: bool) -> impl Fn() + Sync + Send + 'static {
	move || {
		let it = ITER.fetch_add(1, Ordering::SeqCst);
		let dir = fresh_dir();
		crash::start(&dir);
		parity_db::verif::set_external_workers(true);
		let opts = options(&dir, vec![ColumnOptions::default()], true);
		let db = Arc::new(Db::open_or_create(&opts).expect("open"));
		let mut txs = vec![];
		for i in 0..n {
			let (k, v) = (key(i as u8), val(8 + 40 * (i % 2), i as u8));
			txs.push(json!([[0, hex(&k), hex(&v)]]));
			db.commit(vec![(0u8, k, Some(v))]).expect("commit");
			db.process_commits().unwrap();
			db.flush_logs().unwrap();
		}
		assert_eq!(db.verif_digest().read_queue, n, "harness: expected one flushed log file per commit");
		let from = crash::ops_len();
		let mut workers = vec![];
		for (wi, w) in [Worker::Log, Worker::Flush, Worker::Commit, Worker::Cleanup].into_iter().enumerate() {
			if mask & (1 << wi) == 0 {
				continue
			}
			let db = db.clone();
			workers.push(loom::thread::spawn(move || db.verif_run_worker(w)));
		}
		if wait {
			// the client watches until everything is enacted and cleaned (needed with more than 2 files: the scaled
			// limit of one dirty log file makes `drop` wait for a cleanup worker that has already gone when it has to
			// enact two files itself - with the production limit of 4 that needs more unread files than the log
			// queue limit admits)
			let mut spins = 0;
			loop {
				let d = db.verif_digest();
				if d.last_enacted as usize == n && d.cleanup_queue == 0 {
					break
				}
				loom::thread::yield_now();
				spins += 1;
				assert!(spins < 300, "after 300 yields of an idle client: {} of {} records enacted, {} log files waiting for cleanup", d.last_enacted, n, d.cleanup_queue);
			}
		} else {
			// one voluntary yield, then shutdown at whatever point the workers have reached (they finish the record
			// or file they are working on; drop does the rest): fewer schedules than the watch loop, and the
			// shutdown path of the workers is part of the trace
			loom::thread::yield_now();
		}
		db.verif_shutdown();
		for w in workers {
			w.join().unwrap();
		}
		let db = Arc::try_unwrap(db).ok().expect("sole owner");
		drop(db);
		let ops = crash::stop();
		// conformance of the recorder under loom: the shadow file system equals the real files
		if it < 20 {
			let mut sh = crash::Shadow::new();
			for op in &ops {
				crash::apply(&mut sh, op);
			}
			if let Err(e) = crash::compare_with_dir(&sh, &dir) {
				panic!("harness: recorded operations do not reproduce the real files: {}", e);
			}
		}
		let bytes = crash::ops_to_bytes(&ops);
		let h = core::fnv(&bytes, 0xcbf29ce484222325);
		let fresh = TRACES_SEEN.lock().unwrap().get_or_insert_with(Default::default).insert(h);
		if fresh {
			STAT_TRACES.fetch_add(1, Ordering::SeqCst);
			if let Ok(td) = std::env::var("PDBLOOM_TRACES") {
				let _ = std::fs::create_dir_all(&td);
				let j = json!({"property": "C12", "engine": "loommc-trace", "scenario": name, "preemption_bound": pb, "schedule": it + 1, "salt": 3, "txs": txs,
					"from": from, "lo_before": n, "lo_after_sync": n, "hi": n, "operations": ops[from..].iter().map(|o| o.short()).collect::<Vec<_>>(), "ops_hex": hex(&bytes)});
				std::fs::write(format!("{}/{}-pb{}-{:016x}.json", td, name.replace('/', "_"), pb, h), serde_json::to_string(&j).unwrap()).unwrap();
			}
		}
	}
}

static STAT_FAULT_HIT: AtomicU64 = AtomicU64::new(0);
static STAT_REFUSED: AtomicU64 = AtomicU64::new(0);

/// C16 under threads: `n` commits are logged and flushed without threads; then the real workers run while every
/// file operation from the `j`-th of the threaded phase on fails with EIO (whichever thread issues it). Every thread
/// must terminate (a worker stuck forever, or a `drop` that never returns, is loom's "deadlock"), a commit made
/// afterwards returns (refused with the background error if a worker reported one), nothing panics, and after the
/// fault is gone the database reopens with all `n` commits (they were synced before the failure).
fn c16_faulted_workers(n: usize, mask: u8, j: i64) -> impl Fn() + Sync + Send + 'static {
	use std::sync::atomic::Ordering::SeqCst;
	move || {
		ITER.fetch_add(1, Ordering::SeqCst);
		let dir = fresh_dir();
		crash::start(&dir);
		parity_db::verif::set_external_workers(true);
		let opts = options(&dir, vec![ColumnOptions::default()], true);
		let db = Arc::new(Db::open_or_create(&opts).expect("open"));
		for i in 0..n {
			db.commit(vec![(0u8, key(i as u8), Some(val(8 + 40 * (i % 2), i as u8)))]).expect("commit");
			db.process_commits().unwrap();
			db.flush_logs().unwrap();
		}
		let calls0 = crash::CALLS.load(SeqCst);
		crash::FAULT_AFTER.store(calls0 + j, SeqCst);
		let mut workers = vec![];
		for (wi, w) in [Worker::Log, Worker::Flush, Worker::Commit, Worker::Cleanup].into_iter().enumerate() {
			if mask & (1 << wi) == 0 {
				continue
			}
			let db = db.clone();
			workers.push(loom::thread::spawn(move || db.verif_run_worker(w)));
		}
		loom::thread::yield_now();
		// a later commit returns: accepted, or refused with the background error
		match db.commit(vec![(0u8, key(200), Some(val(8, 200)))]) {
			Ok(()) => (),
			Err(_) => {
				STAT_REFUSED.fetch_add(1, Ordering::SeqCst);
			},
		}
		// reads keep returning committed data
		for i in 0..n {
			assert_eq!(db.get(0, &key(i as u8)).unwrap(), Some(val(8 + 40 * (i % 2), i as u8)), "read of commit {} while the fault is present", i);
		}
		db.verif_shutdown();
		for w in workers {
			w.join().unwrap();
		}
		let db = Arc::try_unwrap(db).ok().expect("sole owner");
		drop(db);
		if crash::CALLS.load(SeqCst) > calls0 + j {
			STAT_FAULT_HIT.fetch_add(1, Ordering::SeqCst);
		}
		// the fault goes away
		let _ = crash::stop();
		let opts = options(&dir, vec![ColumnOptions::default()], false);
		let db = Db::open(&opts).expect("reopen after the fault is gone");
		for i in 0..n {
			assert_eq!(db.get(0, &key(i as u8)).unwrap(), Some(val(8 + 40 * (i % 2), i as u8)), "commit {} (synced before the failure) lost after reopen", i);
		}
		drop(db);
	}
}

/// uniform column, zero salt: key = hash. The scaled build starts with a 4-bit index (page = top nibble of the key);
/// all keys of this family share the nibble `c` and differ in the next bit, so one growth (4 -> 5 bits) splits them.
fn page_key(c: u16, i: u8) -> Vec<u8> {
	let mut k = vec![0u8; 32];
	k[0] = ((c as u8) << 4) | ((i & 1) << 3) | ((i >> 1) & 7);
	k[1] = i >> 4;
	k[2] = i;
	for j in 3..32 {
		k[j] = (j as u8).wrapping_mul(7) ^ i;
	}
	k
}

/// C09 under threads: an index growth is in progress (64 keys of one page still live in the old index, the new
/// index is current); a reader reads two of those keys while a pipeline thread finishes the migration (reindex
/// batch, flush, enact, DropTable of the old index, cleanup). Every read must return the key's value.
fn c09_growth_under_reader(two_readers: bool) -> impl Fn() + Sync + Send + 'static {
	move || {
		let t_start = Instant::now();
		ITER.fetch_add(1, Ordering::SeqCst);
		let dir = fresh_dir();
		parity_db::verif::set_external_workers(true);
		let col = ColumnOptions { uniform: true, ..Default::default() };
		let mut opts = options(&dir, vec![col], false);
		opts.salt = Some([0; 32]);
		// single-threaded set-up without the shadow accesses (H8): 64 stores into one index page by one thread trip
		// an assertion inside loom's store history ("TODO: this sometimes fails" in loom/src/rt/atomic.rs)
		parity_db::verif::set_touch_enabled(false);
		let db = Arc::new(Db::open_or_create(&opts).expect("open"));
		const C: u16 = 0x1;
		let v = |i: u8| val(8 + (i as usize % 3) * 20, i);
		db.commit((0..64u8).map(|i| (0u8, page_key(C, i), Some(v(i)))).collect::<Vec<_>>()).unwrap();
		db.process_commits().unwrap();
		db.flush_logs().unwrap();
		db.enact_logs().unwrap();
		db.clean_logs().unwrap();
		// the 65th key of the page: growth 16 -> 17 bits; nothing migrated yet
		db.commit(vec![(0u8, page_key(C, 64), Some(v(64)))]).unwrap();
		db.process_commits().unwrap();
		db.flush_logs().unwrap();
		db.enact_logs().unwrap();
		db.clean_logs().unwrap();
		parity_db::verif::set_touch_enabled(true);
		let files = |d: &std::path::Path| -> Vec<String> {
			let mut v: Vec<String> = std::fs::read_dir(d).unwrap().filter_map(|e| e.ok()).map(|e| e.file_name().to_string_lossy().into_owned()).filter(|n| n.starts_with("index")).collect();
			v.sort();
			v
		};
		assert_eq!(files(&dir).len(), 2, "harness: a growth must be in progress (old and new index file): {:?}", files(&dir));
		if std::env::var("LOOMDBG").is_ok() {
			eprintln!("setup {:?} {:?}", t_start.elapsed(), files(&dir));
		}
		let mut readers = vec![];
		for r in 0..(if two_readers { 2 } else { 1 }) {
			let db = db.clone();
			readers.push(loom::thread::spawn(move || {
				for i in [3u8 + r as u8 * 40, 64, 17 + r as u8] {
					assert_eq!(db.get(0, &page_key(C, i)).unwrap(), Some(val(8 + (i as usize % 3) * 20, i)), "get of live key #{} of the growing page while the index migration completes", i);
				}
			}));
		}
		let pipe = {
			let db = db.clone();
			loom::thread::spawn(move || {
				// (cleanup in every round: with the scaled limit of one dirty log file a second enact would wait for it)
				for _ in 0..3 {
					let t0 = Instant::now();
					db.process_reindex().unwrap();
					let t1 = t0.elapsed();
					db.flush_logs().unwrap();
					db.clean_logs().unwrap();
					db.enact_logs().unwrap();
					db.clean_logs().unwrap();
					if std::env::var("LOOMDBG").is_ok() {
						eprintln!("round: reindex {:?} rest {:?}", t1, t0.elapsed() - t1);
					}
				}
			})
		};
		for r in readers {
			r.join().unwrap();
		}
		pipe.join().unwrap();
		for i in 0..65u8 {
			assert_eq!(db.get(0, &page_key(C, i)).unwrap(), Some(v(i)), "key #{} after the migration", i);
		}
		assert_eq!(files(&dir).len(), 1, "harness: the migration must be complete after the pipeline thread's rounds: {:?}", files(&dir));
		let db = Arc::try_unwrap(db).ok().expect("sole owner");
		drop(db);
	}
}

/// C09 / C15 under the real workers: one index page is full (64 keys, everything enacted and cleaned without
/// threads); then the crate's own worker loops start and the client commits the 65th key of the page. The log
/// worker has to log the commit, notice the full page (growth to the next index size), create the reindex
/// batches and the DropTable record; flush, commit and cleanup workers have to carry all of it through — with
/// no further client activity except reads and empty transactions that wake the log worker. Every read during the migration returns the key's value; the
/// migration completes (old index file gone) without shutdown; after shutdown + reopen every key is there.
fn c09_growth_real_workers(mask: u8, reader: bool) -> impl Fn() + Sync + Send + 'static {
	move || {
		ITER.fetch_add(1, Ordering::SeqCst);
		let dir = fresh_dir();
		parity_db::verif::set_external_workers(true);
		let col = ColumnOptions { uniform: true, ..Default::default() };
		let mut opts = options(&dir, vec![col], true);
		opts.salt = Some([0; 32]);
		parity_db::verif::set_touch_enabled(false);
		let db = Arc::new(Db::open_or_create(&opts).expect("open"));
		const C: u16 = 0x1;
		let v = |i: u8| val(8 + (i as usize % 3) * 20, i);
		db.commit((0..64u8).map(|i| (0u8, page_key(C, i), Some(v(i)))).collect::<Vec<_>>()).unwrap();
		db.process_commits().unwrap();
		db.flush_logs().unwrap();
		db.enact_logs().unwrap();
		db.clean_logs().unwrap();
		parity_db::verif::set_touch_enabled(true);
		let files = |d: &std::path::Path| -> Vec<String> {
			let mut v: Vec<String> = std::fs::read_dir(d).unwrap().filter_map(|e| e.ok()).map(|e| e.file_name().to_string_lossy().into_owned()).filter(|n| n.starts_with("index")).collect();
			v.sort();
			v
		};
		let before = files(&dir);
		assert_eq!(before.len(), 1, "harness: one index file before the growth: {:?}", before);
		let mut workers = vec![];
		for (wi, w) in [Worker::Log, Worker::Flush, Worker::Commit, Worker::Cleanup].into_iter().enumerate() {
			if mask & (1 << wi) == 0 {
				continue
			}
			let db = db.clone();
			workers.push(loom::thread::spawn(move || db.verif_run_worker(w)));
		}
		let rd = if reader {
			let db = db.clone();
			Some(loom::thread::spawn(move || {
				for i in [5u8, 64, 33] {
					let got = db.get(0, &page_key(C, i)).unwrap();
					let want = val(8 + (i as usize % 3) * 20, i);
					// key 64 is committed concurrently: absent or its value
					if i == 64 {
						assert!(got.is_none() || got == Some(want), "get of key #64 (being committed) during the growth returned a foreign value");
					} else {
						assert_eq!(got, Some(want), "get of live key #{} of the growing page while the workers migrate the index", i);
					}
				}
			}))
		} else {
			None
		};
		db.commit(vec![(0u8, page_key(C, 64), Some(v(64)))]).unwrap();
		loom::thread::yield_now();
		let mut spins = 0;
		// The log worker looks for reindex work only after it was woken for a commit (or while a migration is under
		// way): a growth that was triggered by the last commit before a quiet period starts with the next commit. That
		// is the crate's design, and no property promises otherwise; the client therefore "pokes" the log worker with
		// an empty transaction whenever nothing has moved for 6 of its yields.
		let mut last_progress = (0u64, 0u64);
		let mut idle = 0;
		let mut pokes = 0;
		loop {
			let i = [64u8, 0, 63, 17][spins % 4];
			assert_eq!(db.get(0, &page_key(C, i)).unwrap(), Some(v(i)), "get of key #{} while the workers carry the growth through", i);
			let d = db.verif_digest();
			let f = files(&dir);
			if d.commit_queue_len == 0 && d.reindex_queue == 0 && d.next_reindex == 0 && f.len() == 1 && f != before && d.last_enacted + 1 == d.next_record_id {
				break
			}
			if (d.next_record_id, d.last_enacted) == last_progress {
				idle += 1;
			} else {
				idle = 0;
				last_progress = (d.next_record_id, d.last_enacted);
			}
			if idle >= 6 {
				db.commit(Vec::<(u8, Vec<u8>, Option<Vec<u8>>)>::new()).expect("empty commit");
				pokes += 1;
				idle = 0;
			}
			loom::thread::yield_now();
			spins += 1;
			assert!(
				spins < 600 && pokes < 12,
				"after {} yields and {} empty commits of a client that otherwise only reads, the index growth has not completed: {} commits queued, reindex queue {}, next_reindex {}, {} of {} records enacted, {} log files waiting to be read, {} waiting for cleanup, index files {:?}",
				spins, pokes, d.commit_queue_len, d.reindex_queue, d.next_reindex, d.last_enacted, d.next_record_id - 1, d.read_queue, d.cleanup_queue, f
			);
		}
		STAT_DRAINED.fetch_add(1, Ordering::SeqCst);
		if let Some(r) = rd {
			r.join().unwrap();
		}
		db.verif_shutdown();
		for w in workers {
			w.join().unwrap();
		}
		for i in 0..65u8 {
			assert_eq!(db.get(0, &page_key(C, i)).unwrap(), Some(v(i)), "key #{} after the migration", i);
		}
		let db = Arc::try_unwrap(db).ok().expect("sole owner");
		drop(db);
		parity_db::verif::set_touch_enabled(false);
		let mut o2 = opts.clone();
		o2.with_background_thread = false;
		let db = Db::open(&o2).expect("reopen after the growth");
		for i in 0..65u8 {
			assert_eq!(db.get(0, &page_key(C, i)).unwrap(), Some(v(i)), "key #{} after shutdown and reopen", i);
		}
		drop(db);
		parity_db::verif::set_touch_enabled(true);
	}
}

/// C15 throttling: one commit puts the queue over its limit, then `n` more clients commit (all throttled) while
/// the log worker drains; every commit call must return.
fn c15_throttled_clients(n: usize, mask: u8) -> impl Fn() + Sync + Send + 'static {
	move || {
		ITER.fetch_add(1, Ordering::SeqCst);
		let dir = fresh_dir();
		parity_db::verif::set_external_workers(true);
		let opts = options(&dir, vec![ColumnOptions::default()], true);
		let db = Arc::new(Db::open_or_create(&opts).expect("open"));
		db.commit(vec![(0u8, key(0), Some(val(100, 0)))]).expect("commit");
		let mut clients = vec![];
		for i in 0..n {
			let db = db.clone();
			clients.push(loom::thread::spawn(move || {
				db.commit(vec![(0u8, key(10 + i as u8), Some(val(8, i as u8)))]).expect("commit");
			}));
		}
		let mut workers = vec![];
		for (wi, w) in [Worker::Log, Worker::Flush, Worker::Commit, Worker::Cleanup].into_iter().enumerate() {
			if mask & (1 << wi) == 0 {
				continue
			}
			let db = db.clone();
			workers.push(loom::thread::spawn(move || db.verif_run_worker(w)));
		}
		for c in clients {
			c.join().unwrap();
		}
		db.verif_shutdown();
		for w in workers {
			w.join().unwrap();
		}
		let db = Arc::try_unwrap(db).ok().expect("sole owner");
		drop(db);
		let opts = options(&dir, vec![ColumnOptions::default()], false);
		let db = Db::open(&opts).expect("reopen");
		for i in 0..n {
			assert_eq!(db.get(0, &key(10 + i as u8)).unwrap(), Some(val(8, i as u8)), "commit of client {} lost", i);
		}
		drop(db);
	}
}

/// C05: writer commits T1{k1:=B1,k2:=B2} then T2{k1:=C1, del k2}; a pipeline thread drives the stages; a reader
/// reads k1, k2, k1. Versions observed must be atomic, monotone, not older than what completed before the read
/// began and not from the future.
fn c05_scenario(btree: bool, split_pipeline: bool, big: bool) -> impl Fn() + Sync + Send + 'static {
	c05_scenario_c(btree, split_pipeline, big, false)
}

/// `two_cols`: k2 lives in a second column (a transaction spanning two columns)
fn c05_scenario_c(btree: bool, split_pipeline: bool, big: bool, two_cols: bool) -> impl Fn() + Sync + Send + 'static {
	c05_scenario_k(btree, split_pipeline, big, two_cols, false)
}

/// `reuse`: T1 removes k1, T2 stores k2 with a value of k1's size class: k2 takes over the slot(s) k1's value
/// occupied (a chain of slots when `big`); a reader must never get k2's bytes for k1.
fn c05_scenario_k(btree: bool, split_pipeline: bool, big: bool, two_cols: bool, reuse: bool) -> impl Fn() + Sync + Send + 'static {
	c05_scenario_d(btree, split_pipeline, big, two_cols, reuse, false)
}

/// `drift`: the handle under test was opened on a directory whose log held a flushed, unapplied record (the state a
/// crash leaves): replay consumed record id 1 while the commit id counter starts again at 0, so that commit ids and
/// record ids differ for the rest of the handle's life (reindex records cause the same drift).
fn c05_scenario_d(btree: bool, split_pipeline: bool, big: bool, two_cols: bool, reuse: bool, drift: bool) -> impl Fn() + Sync + Send + 'static {
	c05_scenario_r(btree, split_pipeline, big, two_cols, reuse, drift, false)
}

/// `recycle`: three transactions instead of two, and a pipeline order in which the first log file is enacted, cleaned
/// and taken from the pool again for the third record while the second file is still waiting to be enacted (a lower
/// file id then holds the newer record).
fn c05_scenario_r(btree: bool, split_pipeline: bool, big: bool, two_cols: bool, reuse: bool, drift: bool, recycle: bool) -> impl Fn() + Sync + Send + 'static {
	move || {
		let c2: u8 = if two_cols { 1 } else { 0 };
		ITER.fetch_add(1, Ordering::SeqCst);
		let dir = fresh_dir();
		parity_db::verif::set_external_workers(true);
		let col = ColumnOptions { btree_index: btree, ..Default::default() };
		let opts = options(&dir, if two_cols { vec![col.clone(), col.clone()] } else { vec![col.clone()] }, false);
		// version -> value of (k1, k2); version 0 is the enacted pre-state
		let b2 = if big { 40_000 } else { 300 };
		let versions: Arc<Vec<(Option<Vec<u8>>, Option<Vec<u8>>)>> = Arc::new(if reuse {
			let n = if big { 40_000 } else { 10 };
			vec![(Some(val(n, 1)), None), (None, None), (None, Some(val(n, 9)))]
		} else {
			let mut v = vec![
				(Some(val(10, 1)), Some(val(20, 2))),
				(Some(val(60, 3)), Some(val(b2, 4))), // other size tiers (multipart when big)
				(Some(val(10, 5)), None),
			];
			if recycle {
				v.push((Some(val(60, 7)), Some(val(20, 8))));
			}
			v
		});
		let v0: Vec<(u8, Vec<u8>, Option<Vec<u8>>)> = vec![(0u8, key(1), versions[0].0.clone()), (c2, key(2), versions[0].1.clone())].into_iter().filter(|(_, _, v)| v.is_some()).collect();
		let db = if drift {
			let d0 = fresh_dir();
			let o0 = options(&d0, if two_cols { vec![col.clone(), col.clone()] } else { vec![col.clone()] }, false);
			let a = Db::open_or_create(&o0).expect("open");
			a.commit(v0.clone()).unwrap();
			a.process_commits().unwrap();
			a.flush_logs().unwrap();
			for e in std::fs::read_dir(&d0).unwrap().filter_map(|e| e.ok()) {
				if e.file_name() != "lock" {
					std::fs::copy(e.path(), dir.join(e.file_name())).unwrap();
				}
			}
			drop(a);
			let db = Arc::new(Db::open(&opts).expect("open of the crash image"));
			let d = db.verif_digest();
			assert!(d.next_record_id == 2 && d.commit_id_counter == 0, "harness: after replay the record id counter must be ahead of the commit id counter ({} / {})", d.next_record_id, d.commit_id_counter);
			db
		} else {
			let db = Arc::new(Db::open_or_create(&opts).expect("open"));
			db.commit(v0.clone()).unwrap();
			db.process_commits().unwrap();
			db.flush_logs().unwrap();
			db.enact_logs().unwrap();
			db.clean_logs().unwrap();
			db
		};
		let committed = Arc::new(loom::sync::atomic::AtomicUsize::new(0));
		let w = {
			let (db, versions, committed) = (db.clone(), versions.clone(), committed.clone());
			loom::thread::spawn(move || {
				for v in 1..versions.len() {
					db.commit(vec![(0u8, key(1), versions[v].0.clone()), (c2, key(2), versions[v].1.clone())]).unwrap();
					committed.store(v, loom::sync::atomic::Ordering::SeqCst);
				}
			})
		};
		let mut pipes = vec![];
		if split_pipeline {
			let d1 = db.clone();
			pipes.push(loom::thread::spawn(move || {
				d1.process_commits().unwrap();
				d1.process_commits().unwrap();
				d1.flush_logs().unwrap();
			}));
			let d2 = db.clone();
			pipes.push(loom::thread::spawn(move || {
				d2.enact_logs().unwrap();
				d2.clean_logs().unwrap();
			}));
		} else if recycle {
			let d1 = db.clone();
			pipes.push(loom::thread::spawn(move || {
				d1.process_commits().unwrap();
				d1.flush_logs().unwrap();
				d1.process_commits().unwrap();
				d1.flush_logs().unwrap();
				d1.enact_logs().unwrap();
				d1.clean_logs().unwrap();
				// the third record goes into the recycled first file
				d1.process_commits().unwrap();
				d1.flush_logs().unwrap();
				d1.enact_logs().unwrap();
				d1.enact_logs().unwrap();
				d1.clean_logs().unwrap();
			}));
		} else {
			let d1 = db.clone();
			pipes.push(loom::thread::spawn(move || {
				d1.process_commits().unwrap();
				d1.flush_logs().unwrap();
				d1.process_commits().unwrap();
				d1.enact_logs().unwrap();
				d1.flush_logs().unwrap();
				d1.enact_logs().unwrap();
				d1.clean_logs().unwrap();
			}));
		}
		let r = {
			let (db, versions, committed) = (db.clone(), versions.clone(), committed.clone());
			loom::thread::spawn(move || {
				let ver_of = |k: usize, got: &Option<Vec<u8>>| -> Vec<usize> {
					(0..versions.len()).filter(|v| if k == 1 { &versions[*v].0 == got } else { &versions[*v].1 == got }).collect()
				};
				let c0 = committed.load(loom::sync::atomic::Ordering::SeqCst);
				let r1 = db.get(0, &key(1)).unwrap();
				let c1 = committed.load(loom::sync::atomic::Ordering::SeqCst);
				let r2 = db.get(c2, &key(2)).unwrap();
				let c2 = committed.load(loom::sync::atomic::Ordering::SeqCst);
				let r3 = db.get(0, &key(1)).unwrap();
				let c3 = committed.load(loom::sync::atomic::Ordering::SeqCst);
				let v1 = ver_of(1, &r1);
				let v2 = ver_of(2, &r2);
				let v3 = ver_of(1, &r3);
				assert!(!v1.is_empty(), "get(k1) returned a value no transaction wrote ({} bytes)", r1.as_ref().map_or(0, |v| v.len()));
				assert!(!v2.is_empty(), "get(k2) returned a value no transaction wrote ({:?} bytes)", r2.as_ref().map(|v| v.len()));
				assert!(!v3.is_empty(), "second get(k1) returned a value no transaction wrote");
				// a value may belong to several versions (e.g. "absent"): the three reads must admit one assignment of
				// versions that is
				//  - not older than what completed before the read began and not from a commit that had not started
				//    (the writer publishes `committed = v` after commit v returned, so commit v+1 may have started),
				//  - monotone: once T was observed, later reads of keys written by T see T or later
				let ok = v1.iter().any(|a| {
					*a >= c0 && *a <= c1 + 1 && v2.iter().any(|b| *b >= c1 && *b <= c2 + 1 && *b >= *a && v3.iter().any(|c| *c >= c2 && *c <= c3 + 1 && *c >= *b))
				});
				assert!(
					ok,
					"reads k1, k2, k1 returned values of versions {:?}, {:?}, {:?} with {} / {} / {} / {} commits completed before the first / second / third read and after the third: no assignment is atomic, monotone and current",
					v1, v2, v3, c0, c1, c2, c3
				);
			})
		};
		w.join().unwrap();
		for p in pipes {
			p.join().unwrap();
		}
		r.join().unwrap();
		let db = Arc::try_unwrap(db).ok().expect("sole owner");
		drop(db);
	}
}

/// C11 (threads): a reader holds the tree reader lock of K1, reads the tree twice and, in between, inserts K2
/// reusing a node of K1; a pruner dereferences K1 together with a btree write; a later transaction writes the
/// same btree key; a pipeline thread drives the stages. While locked the tree must not change; at the end K2 is
/// intact and the btree key holds the value of the transaction that committed last.
fn c11_scenario(split_pipeline: bool) -> impl Fn() + Sync + Send + 'static {
	use parity_db::{NewNode, NodeRef, Operation};
	move || {
		ITER.fetch_add(1, Ordering::SeqCst);
		EVLOG.lock().unwrap().clear();
		let dir = fresh_dir();
		parity_db::verif::set_external_workers(true);
		let tree_col = ColumnOptions { multitree: true, allow_direct_node_access: true, ..Default::default() };
		let btree_col = ColumnOptions { btree_index: true, ..Default::default() };
		let opts = options(&dir, vec![tree_col, btree_col], false);
		let db = Arc::new(Db::open_or_create(&opts).expect("open"));
		let (k1, k2, b) = (key(1), key(2), key(9));
		let shared = NewNode { data: val(30, 7), children: vec![NodeRef::New(NewNode { data: val(4, 8), children: vec![] })] };
		db.commit_changes(vec![(0u8, Operation::InsertTree(k1.clone(), NewNode { data: val(9, 9), children: vec![NodeRef::New(shared)] }))]).unwrap();
		db.process_commits().unwrap();
		db.flush_logs().unwrap();
		db.enact_logs().unwrap();
		db.clean_logs().unwrap();
		fn walk(g: &(dyn parity_db::TreeReader + Send + Sync)) -> Option<Vec<(Vec<u8>, usize)>> {
			let (root, children) = g.get_root().unwrap()?;
			let mut out = vec![(root, children.len())];
			let mut stack = children;
			while let Some(a) = stack.pop() {
				let (d, ch) = g.get_node(a).unwrap()?;
				out.push((d, ch.len()));
				stack.extend(ch);
			}
			Some(out)
		}
		// commit order of the two btree writers (the commits themselves are serialised by this mutex; their
		// interleaving with the pipeline and the reader is free)
		let order = Arc::new(loom::sync::Mutex::new(Vec::<u8>::new()));
		let reader = {
			let (db, k1, k2) = (db.clone(), k1.clone(), k2.clone());
			loom::thread::spawn(move || {
				let tree = match db.get_tree(0, &k1).unwrap() {
					Some(t) => t,
					None => return false, // the pruner was faster: nothing to lock
				};
				ev("R:got-tree");
				let g = tree.read();
				ev("R:locked");
				let first = walk(&**g);
				ev(if first.is_some() { "R:walk1-ok" } else { "R:walk1-none" });
				if first.is_none() {
					return false
				}
				// insert a tree that reuses K1's child while the lock is held
				let child = g.get_root().unwrap().unwrap().1[0];
				ev("R:commit-K2-start");
				db.commit_changes(vec![(0u8, Operation::InsertTree(k2.clone(), NewNode { data: val(6, 10), children: vec![NodeRef::Existing(child)] }))]).unwrap();
				ev("R:committed-K2");
				loom::thread::yield_now();
				let second = walk(&**g);
				ev("R:walk2");
				if first != second {
					if c11_race_window() {
						tolerate(format!("the locked tree changed under its reader; the process_commits call that dereferenced K1 began before the reader locked K1 and was still running when the lock was taken [{}]", ev_dump()));
					} else {
						panic!("the locked tree changed under its reader [{}]: first walk {:?}, second walk {:?}", ev_dump(), first.as_ref().map(|w| w.len()), second.as_ref().map(|w| w.len()));
					}
				}
				drop(g);
				ev("R:unlocked");
				true
			})
		};
		let pruner = {
			let (db, k1, b, order) = (db.clone(), k1.clone(), b.clone(), order.clone());
			loom::thread::spawn(move || {
				let mut o = order.lock().unwrap();
				ev("P:commit-start");
				db.commit_changes(vec![(0u8, Operation::DereferenceTree(k1.clone())), (1u8, Operation::Set(b.clone(), val(20, 1)))]).unwrap();
				ev("P:committed-deref-K1");
				o.push(1);
			})
		};
		let later = {
			let (db, b, order) = (db.clone(), b.clone(), order.clone());
			loom::thread::spawn(move || {
				let mut o = order.lock().unwrap();
				db.commit_changes(vec![(1u8, Operation::Set(b.clone(), val(21, 2)))]).unwrap();
				ev("W:committed-b");
				o.push(2);
			})
		};
		let mut pipes = vec![];
		{
			let d = db.clone();
			pipes.push(loom::thread::spawn(move || {
				for _ in 0..3 {
					ev("pipe:P-start");
					d.process_commits().unwrap();
					ev("pipe:P");
				}
				d.flush_logs().unwrap();
				ev("pipe:F");
				if !split_pipeline {
					d.enact_logs().unwrap();
					ev("pipe:E");
				}
			}));
		}
		if split_pipeline {
			let d = db.clone();
			pipes.push(loom::thread::spawn(move || {
				d.enact_logs().unwrap();
				ev("pipe2:E");
				d.clean_logs().unwrap();
				ev("pipe2:K");
			}));
		}
		let inserted = reader.join().unwrap();
		pruner.join().unwrap();
		later.join().unwrap();
		for p in pipes {
			p.join().unwrap();
		}
		// finish everything single-threaded
		for _ in 0..8 {
			db.process_commits().unwrap();
		}
		db.flush_logs().unwrap();
		db.enact_logs().unwrap();
		db.clean_logs().unwrap();
		let last = *order.lock().unwrap().last().unwrap();
		assert_eq!(db.get(1, &b).unwrap(), Some(if last == 1 { val(20, 1) } else { val(21, 2) }), "btree key does not hold the value of the transaction that committed last ({})", last);
		assert!(db.get_tree(0, &k1).unwrap().is_none(), "K1 still there after its dereference completed");
		if inserted {
			let t = db.get_tree(0, &k2).unwrap().expect("K2 missing");
			let g = t.read();
			match walk(&**g) {
				Some(w) => {
					assert_eq!(w.len(), 3, "K2 must have its root, the shared node and that node's leaf");
					assert_eq!(w[1].0, val(30, 7), "shared node data changed");
				},
				None => {
					// known class (F-C11-deferral-check-then-act): one process_commits call began before the reader took
					// the lock and ended after the reader's insertion - its decision not to postpone the dereference
					// was taken before the lock existed, its plan was written after the insertion
					let l = EVLOG.lock().unwrap().clone();
					let spanning = c11_race_window();
					if !spanning && c11_commit_overlap() {
						tolerate(format!("K2 unreadable: a node it shares with K1 was freed; the dereference of K1 was committed while the reader's InsertTree commit call (made under the lock) was in progress and was queued ahead of it [{}]", l.join(" | ")));
					} else if !spanning {
						panic!("K2 unreadable: a node it shares with K1 was freed [{}]", l.join(" | "))
					} else {
						tolerate(format!("K2 unreadable: a node it shares with K1 was freed; the process_commits call that dereferenced K1 began before the reader locked K1 and was still running when the lock was taken [{}]", l.join(" | ")));
					}
				},
			}
		}
		let db = Arc::try_unwrap(db).ok().expect("sole owner");
		drop(db);
	}
}

/// C11, two readers: both obtain the reader of K1 at the same time (get_tree registers it on first use), lock it, walk
/// the tree twice; a pruner dereferences K1; a pipeline thread drives the stages. Under its lock each reader sees the
/// tree unchanged; at the end K1 is gone.
fn c11_two_readers() -> impl Fn() + Sync + Send + 'static {
	use parity_db::{NewNode, NodeRef, Operation};
	move || {
		ITER.fetch_add(1, Ordering::SeqCst);
		EVLOG.lock().unwrap().clear();
		let dir = fresh_dir();
		parity_db::verif::set_external_workers(true);
		let tree_col = ColumnOptions { multitree: true, allow_direct_node_access: true, ..Default::default() };
		let opts = options(&dir, vec![tree_col], false);
		let db = Arc::new(Db::open_or_create(&opts).expect("open"));
		let k1 = key(1);
		db.commit_changes(vec![(0u8, Operation::InsertTree(k1.clone(), NewNode { data: val(9, 9), children: vec![NodeRef::New(NewNode { data: val(30, 7), children: vec![] })] }))]).unwrap();
		db.process_commits().unwrap();
		db.flush_logs().unwrap();
		db.enact_logs().unwrap();
		db.clean_logs().unwrap();
		fn walk(g: &(dyn parity_db::TreeReader + Send + Sync)) -> Option<Vec<(Vec<u8>, usize)>> {
			let (root, children) = g.get_root().unwrap()?;
			let mut out = vec![(root, children.len())];
			let mut stack = children;
			while let Some(a) = stack.pop() {
				let (d, ch) = g.get_node(a).unwrap()?;
				out.push((d, ch.len()));
				stack.extend(ch);
			}
			Some(out)
		}
		let mut readers = vec![];
		for tag in ["A", "B"] {
			let (db, k1) = (db.clone(), k1.clone());
			readers.push(loom::thread::spawn(move || {
				let tree = match db.get_tree(0, &k1).unwrap() {
					Some(t) => t,
					None => return None,
				};
				ev(&format!("R{}:got-tree", tag));
				let g = tree.read();
				ev(&format!("R{}:locked", tag));
				let first = walk(&**g);
				if first.is_none() {
					drop(g);
					return Some(tree)
				}
				loom::thread::yield_now();
				let second = walk(&**g);
				if first != second {
					if c11_race_window_for(&format!("R{}:locked", tag)) {
						tolerate(format!("the locked tree changed under its reader; the process_commits call that dereferenced K1 began before the reader locked K1 and was still running when the lock was taken [{}]", ev_dump()));
					} else {
						panic!("the locked tree changed under reader {} [{}]", tag, ev_dump());
					}
				}
				drop(g);
				ev(&format!("R{}:unlocked", tag));
				Some(tree)
			}));
		}
		let pruner = {
			let (db, k1) = (db.clone(), k1.clone());
			loom::thread::spawn(move || {
				db.commit_changes(vec![(0u8, Operation::DereferenceTree(k1.clone()))]).unwrap();
				ev("P:committed-deref-K1");
			})
		};
		let pipe = {
			let d = db.clone();
			loom::thread::spawn(move || {
				for _ in 0..2 {
					ev("pipe:P-start");
					d.process_commits().unwrap();
					ev("pipe:P");
				}
				d.flush_logs().unwrap();
				d.enact_logs().unwrap();
				d.clean_logs().unwrap();
			})
		};
		let got: Vec<_> = readers.into_iter().map(|r| r.join().unwrap()).collect();
		// one reader object per tree: a lock taken through a second object would be invisible to the deferral checks
		// and to the write lock that guards the dereference (both handles are still alive here)
		if let (Some(a), Some(b)) = (&got[0], &got[1]) {
			assert!(Arc::ptr_eq(a, b), "two get_tree calls for the same tree returned two different reader objects while both are alive [{}]", ev_dump());
		}
		drop(got);
		pruner.join().unwrap();
		pipe.join().unwrap();
		for _ in 0..6 {
			db.process_commits().unwrap();
		}
		db.flush_logs().unwrap();
		db.enact_logs().unwrap();
		db.clean_logs().unwrap();
		assert!(db.get_tree(0, &k1).unwrap().is_none(), "K1 still there after its dereference completed");
		let db = Arc::try_unwrap(db).ok().expect("sole owner");
		drop(db);
	}
}

/// C05 with the crate's real worker loops instead of a scripted pipeline thread: writer (one two-key transaction
/// moving both keys to other size classes), reader (k1, k2, k1), log / flush / commit / cleanup workers.
fn c05_real_workers(mask: u8) -> impl Fn() + Sync + Send + 'static {
	move || {
		ITER.fetch_add(1, Ordering::SeqCst);
		let dir = fresh_dir();
		parity_db::verif::set_external_workers(true);
		// pre-state written without threads
		{
			let opts = options(&dir, vec![ColumnOptions::default()], false);
			let db = Db::open_or_create(&opts).expect("open");
			db.commit(vec![(0u8, key(1), Some(val(10, 1))), (0u8, key(2), Some(val(20, 2)))]).unwrap();
			db.process_commits().unwrap();
			db.flush_logs().unwrap();
			db.enact_logs().unwrap();
			db.clean_logs().unwrap();
		}
		let opts = options(&dir, vec![ColumnOptions::default()], true);
		let db = Arc::new(Db::open(&opts).expect("open"));
		let versions: Arc<Vec<(Option<Vec<u8>>, Option<Vec<u8>>)>> = Arc::new(vec![(Some(val(10, 1)), Some(val(20, 2))), (Some(val(60, 3)), Some(val(300, 4)))]);
		let mut workers = vec![];
		for (wi, w) in [Worker::Log, Worker::Flush, Worker::Commit, Worker::Cleanup].into_iter().enumerate() {
			if mask & (1 << wi) == 0 {
				continue
			}
			let db = db.clone();
			workers.push(loom::thread::spawn(move || db.verif_run_worker(w)));
		}
		let committed = Arc::new(loom::sync::atomic::AtomicUsize::new(0));
		let w = {
			let (db, versions, committed) = (db.clone(), versions.clone(), committed.clone());
			loom::thread::spawn(move || {
				db.commit(vec![(0u8, key(1), versions[1].0.clone()), (0u8, key(2), versions[1].1.clone())]).unwrap();
				committed.store(1, loom::sync::atomic::Ordering::SeqCst);
			})
		};
		let r = {
			let (db, versions, committed) = (db.clone(), versions.clone(), committed.clone());
			loom::thread::spawn(move || {
				let ver = |k: usize, got: &Option<Vec<u8>>| (0..2).find(|v| if k == 1 { &versions[*v].0 == got } else { &versions[*v].1 == got });
				let c0 = committed.load(loom::sync::atomic::Ordering::SeqCst);
				let v1 = ver(1, &db.get(0, &key(1)).unwrap()).expect("get(k1) returned a value no transaction wrote");
				loom::thread::yield_now();
				let v2 = ver(2, &db.get(0, &key(2)).unwrap()).expect("get(k2) returned a value no transaction wrote");
				loom::thread::yield_now();
				let v3 = ver(1, &db.get(0, &key(1)).unwrap()).expect("second get(k1) returned a value no transaction wrote");
				assert!(v1 >= c0, "get(k1) older than a commit that completed before the read");
				assert!(v2 >= v1, "k1 read at version {}, then k2 at the older version {}", v1, v2);
				assert!(v3 >= v2, "k2 read at version {}, then k1 at the older version {}", v2, v3);
			})
		};
		w.join().unwrap();
		r.join().unwrap();
		db.verif_shutdown();
		for w in workers {
			w.join().unwrap();
		}
		let db = Arc::try_unwrap(db).ok().expect("sole owner");
		drop(db);
	}
}

// ---------------------------------------------------------------------------------------------------
// driver

struct Outcome {
	name: String,
	pb: usize,
	schedules: u64,
	complete: bool,
	failure: Option<String>,
	secs: f64,
}

/// Explore all schedules of `model` with at most `pb` preemptions; at most `wall` seconds.
fn explore<F: Fn() + Sync + Send + 'static>(name: &str, pb: usize, wall: f64, model: F) -> Outcome {
	let model = Arc::new(model);
	let ck = scratch().join(format!("{}-pb{}.ck", name.replace('/', "_"), pb));
	std::fs::create_dir_all(scratch()).unwrap();
	let _ = std::fs::remove_file(&ck);
	let t0 = Instant::now();
	let mut last: Vec<u8> = vec![];
	let mut n = 0u64;
	let mut failure = None;
	let mut complete = false;
	loop {
		let m = model.clone();
		let ckp = ck.clone();
		let h = std::thread::Builder::new()
			.stack_size(64 << 20)
			.spawn(move || {
				let mut b = loom::model::Builder::new();
				b.max_branches = 1_000_000;
				b.preemption_bound = Some(pb);
				b.checkpoint_file = Some(ckp);
				b.checkpoint_interval = 1;
				b.max_permutations = Some(2);
				let m2 = m.clone();
				b.check(move || m2());
			})
			.unwrap();
		n += 1;
		if let Err(e) = h.join() {
			let msg = if let Some(s) = e.downcast_ref::<String>() {
				s.clone()
			} else if let Some(s) = e.downcast_ref::<&str>() {
				s.to_string()
			} else {
				"panic".into()
			};
			failure = Some(msg);
			break
		}
		let cur = std::fs::read(&ck).unwrap_or_default();
		if cur == last {
			complete = true;
			break
		}
		last = cur;
		if t0.elapsed().as_secs_f64() > wall {
			break
		}
	}
	Outcome { name: name.into(), pb, schedules: n, complete, failure, secs: t0.elapsed().as_secs_f64() }
}

/// In-process variant (no checkpoint file, all schedules on loom's own coroutines of one OS thread): for scenarios
/// whose executions are long (10^5 lock operations: writing the path to the checkpoint file after every schedule
/// costs seconds) and whose behaviour does not depend on the iteration order of a std HashMap with more than one
/// entry (one column, one index table per record), so that the per-thread RandomState counter does not matter.
fn explore_inproc<F: Fn() + Sync + Send + 'static>(name: &str, pb: usize, wall: f64, model: F) -> Outcome {
	let t0 = Instant::now();
	let before = ITER.load(Ordering::SeqCst);
	let h = std::thread::Builder::new()
		.stack_size(256 << 20)
		.spawn(move || {
			let mut b = loom::model::Builder::new();
			b.max_branches = 1_000_000;
			b.preemption_bound = Some(pb);
			b.max_duration = Some(std::time::Duration::from_secs_f64(wall));
			b.check(model);
		})
		.unwrap();
	let failure = match h.join() {
		Ok(()) => None,
		Err(e) => Some(if let Some(s) = e.downcast_ref::<String>() {
			s.clone()
		} else if let Some(s) = e.downcast_ref::<&str>() {
			s.to_string()
		} else {
			"panic".into()
		}),
	};
	let secs = t0.elapsed().as_secs_f64();
	Outcome { name: name.into(), pb, schedules: ITER.load(Ordering::SeqCst) - before, complete: failure.is_none() && secs < wall, failure, secs }
}

fn verif_root() -> PathBuf {
	PathBuf::from(std::env::var("VERIF_ROOT").unwrap_or_else(|_| "/verif".into()))
}
fn out_root() -> PathBuf {
	std::env::var("VERIF_OUT").map(PathBuf::from).unwrap_or_else(|_| verif_root())
}

/// Each scenario/bound runs in a forked child (a loom failure may abort; threads of a failed execution linger).
fn run_child(prop: &str, tier: &str, idx: usize) -> Outcome {
	let quick = tier != "thorough";
	let wall = if quick { 40.0 } else { 900.0 };
	match (prop, idx) {
		("C15", 0) => explore("workers/2-small-commits", 1, wall, c15_scenario(&[8, 8], false)),
		("C15", 1) => explore("workers/2-small-commits", 2, wall, c15_scenario(&[8, 8], false)),
		("C15", 2) => explore("workers/over-queue-limit", 1, wall, c15_scenario(&[100, 8], false)),
		("C15", 3) => explore("workers/over-log-limit", 1, wall, c15_scenario(&[600, 8], false)),
		("C15", 4) => explore("workers/empty-transaction", 2, wall, c15_scenario(&[0, 8], false)),
		("C15", 5) => explore("workers/second-client", 1, wall, c15_scenario(&[100], true)),
		("C15", 10) => explore("log-worker-only/commit-over-log-limit", 2, wall, c15_scenario_w(&[600], false, 0b0001)),
		("C15", 11) => explore("log+flush-workers/over-log-limit-then-small", 2, wall, c15_scenario_w(&[600, 8], false, 0b0011)),
		("C15", 12) => explore("log+flush+commit-workers/over-queue-limit", 1, wall, c15_scenario_w(&[100, 8], false, 0b0111)),
		("C15", 13) => explore("log-worker-only/two-clients-over-queue-limit", 2, wall, c15_scenario_w(&[100], true, 0b0001)),
		("C15", 14) => explore("liveness/set-logged-without-client-activity", 2, wall, c15_liveness(false, 0b0001)),
		("C15", 15) => explore("liveness/delete-only-logged-without-client-activity", 2, wall, c15_liveness(true, 0b0001)),
		("C15", 16) => explore("throttling/two-clients-blocked-on-full-queue", 1, wall, c15_throttled_clients(2, 0b0001)),
		("C15", 19) => explore("liveness/over-log-limit-then-small-enacted-without-shutdown", 1, wall, c15_liveness_seq(&[600, 8], 0b0111)),
		("C15", 20) => explore("liveness/3-commits-all-workers-enacted-without-shutdown", 1, wall, c15_liveness_seq(&[8, 8, 8], 0b1111)),
		("C15", 23) => explore("backlog/3-flushed-files-then-commit+cleanup-workers", 2, wall, c15_backlog(3, 0b1100)),
		("C15", 24) => explore("backlog/4-flushed-files-then-all-workers", 1, wall, c15_backlog(4, 0b1111)),
		("C15", 25) if !quick => explore("backlog/5-flushed-files-then-commit+cleanup-workers", 3, wall, c15_backlog(5, 0b1100)),
		("C15", 21) if !quick => explore("liveness/over-log-limit-then-small-enacted-without-shutdown", 2, wall, c15_liveness_seq(&[600, 8], 0b0111)),
		("C15", 22) if !quick => explore("liveness/4-commits-all-workers-enacted-without-shutdown", 1, wall, c15_liveness_seq(&[8, 8, 8, 8], 0b1111)),
		("C15", 17) if !quick => explore("throttling/two-clients-blocked-on-full-queue", 2, wall, c15_throttled_clients(2, 0b0001)),
		("C15", 18) if !quick => explore("liveness/delete-only-all-workers", 1, wall, c15_liveness(true, 0b1111)),
		("C15", 6) if !quick => explore("workers/2-small-commits", 3, wall, c15_scenario(&[8, 8], false)),
		("C15", 7) if !quick => explore("workers/over-queue-limit", 2, wall, c15_scenario(&[100, 8], false)),
		("C15", 8) if !quick => explore("workers/3-commits-mixed", 2, wall, c15_scenario(&[100, 600, 8], false)),
		("C15", 9) if !quick => explore("workers/second-client", 2, wall, c15_scenario(&[100], true)),
		("C03L", 0) => explore("drop-anywhere/3-commits/all-workers", 1, wall, c03_drop_anywhere(0b1111)),
		("C03L", 1) => explore("drop-anywhere/3-commits/log+flush-workers", 2, wall.min(if quick { 30.0 } else { wall }), c03_drop_anywhere(0b0011)),
		("C03L", 2) => explore("drop-anywhere/3-commits/log-worker-only", 2, wall.min(if quick { 30.0 } else { wall }), c03_drop_anywhere(0b0001)),
		("C03L", 3) => explore("drop-anywhere/log-rotation/all-workers", 1, wall.min(if quick { 30.0 } else { wall }), c15_scenario(&[600, 8], false)),
		("C03L", 4) if !quick => explore("drop-anywhere/3-commits/all-workers", 2, wall, c03_drop_anywhere(0b1111)),
		("C03L", 5) if !quick => explore("drop-anywhere/3-commits/log+flush+commit-workers", 2, wall, c03_drop_anywhere(0b0111)),
		("C12L", 0) => explore("backlog-2-files/commit+cleanup-workers", 2, wall.min(if quick { 30.0 } else { wall }), c12_backlog("backlog-2-files/commit+cleanup-workers", 2, 2, 0b1100, false)),
		("C12L", 1) => explore("backlog-3-files/commit+cleanup-workers", 1, wall.min(if quick { 30.0 } else { wall }), c12_backlog("backlog-3-files/commit+cleanup-workers", 1, 3, 0b1100, false)),
		("C12L", 2) => explore("backlog-3-files/all-workers", 1, wall.min(if quick { 30.0 } else { wall }), c12_backlog("backlog-3-files/all-workers", 1, 3, 0b1111, false)),
		("C12L", 3) if !quick => explore("backlog-3-files/commit+cleanup-workers", 2, wall, c12_backlog("backlog-3-files/commit+cleanup-workers", 2, 3, 0b1100, false)),
		("C12L", 4) if !quick => explore("backlog-4-files/commit+cleanup-workers", 2, wall, c12_backlog("backlog-4-files/commit+cleanup-workers", 2, 4, 0b1100, false)),
		("C12L", 5) if !quick => explore("backlog-2-files/commit+cleanup-workers", 3, wall, c12_backlog("backlog-2-files/commit+cleanup-workers", 3, 2, 0b1100, false)),
		("C16L", i) if i < 36 => explore(&format!("backlog-3-files/commit+cleanup-workers/fault-from-op-{}", i), 1, wall, c16_faulted_workers(3, 0b1100, i as i64)),
		("C16L", i) if !quick && (36..48).contains(&i) => explore(&format!("backlog-2-files/all-workers/fault-from-op-{}", i - 36), 1, wall, c16_faulted_workers(2, 0b1111, (i - 36) as i64)),
		("C16L", i) if !quick && (48..84).contains(&i) => explore(&format!("backlog-3-files/commit+cleanup-workers/fault-from-op-{}", i - 48), 2, wall, c16_faulted_workers(3, 0b1100, (i - 48) as i64)),
		("C16L", i) if !quick && (84..104).contains(&i) => explore(&format!("backlog-4-files/all-workers/fault-from-op-{}", i - 84), 1, wall, c16_faulted_workers(4, 0b1111, (i - 84) as i64)),
		("C09L", 0) => explore("growth-in-progress/reader+pipeline-thread", 1, wall, c09_growth_under_reader(false)),
		("C09L", 1) => explore("growth-in-progress/reader+pipeline-thread", 2, wall.min(if quick { 25.0 } else { wall }), c09_growth_under_reader(false)),
		("C09L", 3) => explore("growth-from-the-start/real-workers+reading-client", 1, wall, c09_growth_real_workers(0b1111, false)),
		("C09L", 4) if !quick => explore("growth-from-the-start/real-workers+reading-client+reader", 1, wall, c09_growth_real_workers(0b1111, true)),
		("C09L", 5) if !quick => explore("growth-from-the-start/real-workers+reading-client", 2, wall, c09_growth_real_workers(0b1111, false)),
		("C15", 26) => explore("liveness/index-growth-completes-under-real-workers", 1, wall, c09_growth_real_workers(0b1111, false)),
		("C09L", 2) if !quick => explore("growth-in-progress/2-readers+pipeline-thread", 1, wall, c09_growth_under_reader(true)),
		("C11L", 5) => explore("2-readers+pruner/one-pipeline-thread", 1, wall.min(if quick { 30.0 } else { wall }), c11_two_readers()),
		("C11L", 6) if !quick => explore("2-readers+pruner/one-pipeline-thread", 2, wall, c11_two_readers()),
		("C11L", 0) => explore("reader+pruner+writer/one-pipeline-thread", 1, wall, c11_scenario(false)),
		("C11L", 1) if !quick => explore("reader+pruner+writer/one-pipeline-thread", 2, wall, c11_scenario(false)),
		("C11L", 2) if !quick => explore("reader+pruner+writer/split-pipeline", 1, wall, c11_scenario(true)),
		("C11L", 3) if !quick => explore("reader+pruner+writer/split-pipeline", 2, wall, c11_scenario(true)),
		("C11L", 4) if !quick => explore("reader+pruner+writer/one-pipeline-thread", 3, wall, c11_scenario(false)),
		("C05", 0) => explore("hash/one-pipeline-thread", 2, wall, c05_scenario(false, false, false)),
		("C05", 1) => explore("hash/split-pipeline", 1, wall, c05_scenario(false, true, false)),
		("C05", 2) => explore("btree/one-pipeline-thread", 2, wall, c05_scenario(true, false, false)),
		("C05", 3) => explore("hash/multipart-value", 1, wall, c05_scenario(false, false, true)),
		("C05", 10) => explore("real-workers/log+flush+commit", 1, wall, c05_real_workers(0b0111)),
		("C05", 11) if !quick => explore("real-workers/all-four", 1, wall, c05_real_workers(0b1111)),
		("C05", 12) if !quick => explore("real-workers/log+flush+commit", 2, wall, c05_real_workers(0b0111)),
		("C05", 16) => explore("hash/record-ids-ahead-of-commit-ids", 2, wall, c05_scenario_d(false, false, false, false, false, true)),
		("C05", 17) if !quick => explore("btree/record-ids-ahead-of-commit-ids+split-pipeline", 2, wall, c05_scenario_d(true, true, false, false, false, true)),
		("C05", 18) => explore("hash/three-commits-recycled-log-file", 1, wall, c05_scenario_r(false, false, false, false, false, false, true)),
		("C05", 19) if !quick => explore("hash/three-commits-recycled-log-file", 2, wall, c05_scenario_r(false, false, false, false, false, false, true)),
		("C05", 13) => explore("hash/slot-reuse-by-another-key", 2, wall, c05_scenario_k(false, false, false, false, true)),
		("C05", 14) => explore("hash/multipart-chain-reuse-by-another-key", 1, wall, c05_scenario_k(false, false, true, false, true)),
		("C05", 15) if !quick => explore("hash/multipart-chain-reuse-by-another-key", 2, wall, c05_scenario_k(false, true, true, false, true)),
		("C05", 8) => explore("two-columns/one-pipeline-thread", 2, wall, c05_scenario_c(false, false, false, true)),
		("C05", 9) => explore("two-columns-btree+split-pipeline", 1, wall, c05_scenario_c(true, true, false, true)),
		("C05", 4) if !quick => explore("hash/one-pipeline-thread", 3, wall, c05_scenario(false, false, false)),
		("C05", 5) if !quick => explore("hash/split-pipeline", 2, wall, c05_scenario(false, true, false)),
		("C05", 6) if !quick => explore("btree/split-pipeline", 2, wall, c05_scenario(true, true, false)),
		("C05", 7) if !quick => explore("hash/multipart-value", 2, wall, c05_scenario(false, false, true)),
		_ => Outcome { name: String::new(), pb: 0, schedules: 0, complete: true, failure: None, secs: 0.0 },
	}
}

fn main() {
	let args: Vec<String> = std::env::args().collect();
	let prop = args.get(1).cloned().unwrap_or_default();
	let tier = args.get(2).cloned().unwrap_or_else(|| "quick".into());
	if args.get(3).map(|s| s.as_str()) == Some("--child") {
		let idx: usize = args[4].parse().unwrap();
		if std::env::var("PDBLOOM_PANIC_TRACE").is_err() {
			std::panic::set_hook(Box::new(|_| {}));
		}
		let o = run_child(&prop, &tier, idx);
		println!("{}", json!({"name": o.name, "pb": o.pb, "schedules": o.schedules, "complete": o.complete, "failure": o.failure, "secs": o.secs,
			"tolerated": TOLERATED.lock().map(|t| t.clone()).unwrap_or_default(), "distinct_traces": STAT_TRACES.load(Ordering::SeqCst), "schedules_in_which_the_fault_was_reached": STAT_FAULT_HIT.load(Ordering::SeqCst), "schedules_in_which_the_later_commit_was_refused": STAT_REFUSED.load(Ordering::SeqCst), "schedules_where_workers_logged_everything_before_join": STAT_DRAINED.load(Ordering::SeqCst), "schedules_where_a_record_was_enacted_by_the_workers": STAT_ENACTED.load(Ordering::SeqCst)}));
		let _ = std::fs::remove_dir_all(scratch());
		std::process::exit(0);
	}
	if prop == "replay" {
		// re-run the scenario/bound pair of a stored loom counterexample: the exploration order is deterministic, so
		// the same schedule fails again
		let body = std::fs::read_to_string(&tier).unwrap_or_else(|e| {
			println!("MACHINERY-ERROR: cannot read {}: {}", tier, e);
			std::process::exit(2)
		});
		let j: serde_json::Value = serde_json::from_str(&body).unwrap_or(json!({}));
		let (p, t, idx) = (j["check"].as_str().unwrap_or("").to_string(), j["tier"].as_str().unwrap_or("quick").to_string(), j["child_index"].as_u64().unwrap_or(999) as usize);
		std::panic::set_hook(Box::new(|_| {}));
		let o = run_child(&p, &t, idx);
		let _ = std::fs::remove_dir_all(scratch());
		match o.failure {
			Some(f) => {
				println!("replay: scenario {} preemption bound {}: schedule #{} fails: {}", o.name, o.pb, o.schedules, f);
				println!("VIOLATION property={} replay={}", j["property"].as_str().unwrap_or("?"), tier);
				std::process::exit(1)
			},
			None => {
				println!("replay: scenario {} preemption bound {}: {} schedules explored ({}), no failure", o.name, o.pb, o.schedules, if o.complete { "complete" } else { "wall cap" });
				std::process::exit(0)
			},
		}
	}
	let t0 = Instant::now();
	let exe = std::env::current_exe().unwrap();
	// "C11L" = the threaded part of C11: reported under property C11, evidence in C11-loom.json (the registered
	// evidence file of C11 is written by the sequential part)
	// "C12L" likewise: the threaded part of C12 (schedules explored here, their I/O traces judged by pdbmc)
	let report_prop = match prop.as_str() {
		"C11L" => "C11".to_string(),
		"C12L" => "C12".to_string(),
		"C16L" => "C16".to_string(),
		"C09L" => "C09".to_string(),
		"C03L" => "C03".to_string(),
		_ => prop.clone(),
	};
	let evidence_name = match prop.as_str() {
		"C11L" => "C11-loom".to_string(),
		"C12L" => "C12-loom".to_string(),
		"C16L" => "C16-loom".to_string(),
		"C09L" => "C09-loom".to_string(),
		"C03L" => "C03-loom".to_string(),
		_ => prop.clone(),
	};
	let traces_root = PathBuf::from(format!("{}/pdbloom-traces-{}", std::env::var("PDBMC_SCRATCH").unwrap_or_else(|_| "/dev/shm".into()), std::process::id()));
	// all scenario/bound pairs in parallel, one process each
	let mut children = vec![];
	for idx in 0..104 {
		let c = std::process::Command::new(&exe).args([&prop, &tier, "--child", &idx.to_string()]).env("PDBLOOM_TRACES", traces_root.join(idx.to_string())).stdout(std::process::Stdio::piped()).stderr(std::process::Stdio::null()).spawn().unwrap();
		children.push((idx, c));
	}
	let known: Vec<serde_json::Value> = std::fs::read_to_string(verif_root().join("known_findings.jsonl"))
		.unwrap_or_default()
		.lines()
		.filter(|l| !l.trim().is_empty() && !l.starts_with('#'))
		.filter_map(|l| serde_json::from_str(l).ok())
		.collect();
	let mut parts = vec![];
	let mut total = 0u64;
	let mut violations = 0;
	let mut exhaustive = true;
	let mut known_lines = vec![];
	for (idx, c) in children {
		let out = c.wait_with_output().unwrap();
		let line = String::from_utf8_lossy(&out.stdout);
		let j: serde_json::Value = match line.lines().last().and_then(|l| serde_json::from_str(l).ok()) {
			Some(j) => j,
			None => json!({"name": format!("scenario #{}", idx), "pb": 0, "schedules": 0, "complete": false, "failure": format!("the exploration process died ({})", out.status), "secs": 0.0}),
		};
		if j["name"].as_str().unwrap_or("").is_empty() {
			continue
		}
		total += j["schedules"].as_u64().unwrap_or(0);
		println!(
			"  scenario {:<32} preemption bound {} schedules={} {} {:.1}s",
			j["name"].as_str().unwrap(),
			j["pb"],
			j["schedules"],
			if j["complete"].as_bool().unwrap_or(false) { "complete" } else if j["failure"].is_null() { "CAPPED (wall budget)" } else { "FAILED" },
			j["secs"].as_f64().unwrap_or(0.0)
		);
		if !j["complete"].as_bool().unwrap_or(false) && j["failure"].is_null() {
			exhaustive = false;
		}
		for t in j["tolerated"].as_array().cloned().unwrap_or_default() {
			let rendering = format!("scenario {} preemption bound {}: {}", j["name"].as_str().unwrap(), j["pb"], t.as_str().unwrap_or(""));
			let k = known.iter().find(|k| {
				k["property"] == report_prop.as_str() &&
					k["status"].as_str().map_or(false, |s| s == "open") &&
					k["signature"].as_array().map_or(false, |a| !a.is_empty() && a.iter().all(|s| rendering.contains(s.as_str().unwrap_or("\u{0}"))))
			});
			if let Some(k) = k {
				let l = format!("KNOWN-FINDING: property={} {} [{}]", report_prop, k["what"].as_str().unwrap_or(""), k["id"].as_str().unwrap_or(""));
				if !known_lines.contains(&l) {
					println!("{}", l);
					known_lines.push(l);
				}
			} else {
				violations += 1;
				let dir = out_root().join("replays");
				let _ = std::fs::create_dir_all(&dir);
				let path = dir.join(format!("{}-loom-{}-pb{}-tolerated.json", report_prop, j["name"].as_str().unwrap().replace('/', "_"), j["pb"]));
				std::fs::write(&path, serde_json::to_string_pretty(&json!({"property": report_prop, "engine": "loommc", "scenario": j["name"], "preemption_bound": j["pb"], "message": t, "check": prop, "tier": tier, "child_index": idx})).unwrap()).unwrap();
				println!("VIOLATION property={} replay={}", report_prop, path.display());
				println!("  {}", rendering);
				break
			}
		}
		if let Some(f) = j["failure"].as_str() {
			let rendering = format!("scenario {} preemption bound {}: after {} schedules: {}", j["name"].as_str().unwrap(), j["pb"], j["schedules"], f);
			let k = known.iter().find(|k| {
				k["property"] == report_prop.as_str() &&
					k["status"].as_str().map_or(false, |s| s == "open") &&
					k["signature"].as_array().map_or(false, |a| !a.is_empty() && a.iter().all(|s| rendering.contains(s.as_str().unwrap_or("\u{0}"))))
			});
			if let Some(k) = k {
				let l = format!("KNOWN-FINDING: property={} {} [{}]", report_prop, k["what"].as_str().unwrap_or(""), k["id"].as_str().unwrap_or(""));
				if !known_lines.contains(&l) {
					println!("{}", l);
					known_lines.push(l);
				}
			} else {
				violations += 1;
				let dir = out_root().join("replays");
				let _ = std::fs::create_dir_all(&dir);
				let path = dir.join(format!("{}-loom-{}-pb{}.json", report_prop, j["name"].as_str().unwrap().replace('/', "_"), j["pb"]));
				std::fs::write(&path, serde_json::to_string_pretty(&json!({"property": report_prop, "engine": "loommc", "scenario": j["name"], "preemption_bound": j["pb"], "failed_at_schedule": j["schedules"], "message": f, "check": prop, "tier": tier, "child_index": idx})).unwrap()).unwrap();
				println!("VIOLATION property={} replay={}", report_prop, path.display());
				println!("  {}", rendering);
			}
		}
		parts.push(j);
	}
	// C12L: every distinct I/O trace is judged by the sequential engine (power loss at every operation boundary)
	let mut trace_judgement = json!(null);
	if prop == "C12L" {
		let pdbmc = verif_root().join(".target/std-small/release/pdbmc");
		let mut sum = json!({"traces": 0u64, "operations_in_threaded_phase": 0u64, "crash_points": 0u64, "images": 0u64, "distinct_images_recovered": 0u64, "power_loss_images": 0u64, "max_dirty_pages": 0u64, "subsets_capped": 0u64, "recovered_to": {}});
		if let Ok(rd) = std::fs::read_dir(&traces_root) {
			let mut dirs: Vec<PathBuf> = rd.filter_map(|e| e.ok()).map(|e| e.path()).collect();
			dirs.sort();
			for d in dirs {
				let out = std::process::Command::new(&pdbmc).args(["judge-traces", &d.to_string_lossy()]).output();
				let out = match out {
					Ok(o) if o.status.success() => o,
					Ok(o) => {
						println!("MACHINERY-ERROR: judging traces failed: {}", String::from_utf8_lossy(&o.stdout).lines().last().unwrap_or(""));
						std::process::exit(2)
					},
					Err(e) => {
						println!("MACHINERY-ERROR: cannot run {}: {}", pdbmc.display(), e);
						std::process::exit(2)
					},
				};
				let j: serde_json::Value = String::from_utf8_lossy(&out.stdout).lines().last().and_then(|l| serde_json::from_str(l).ok()).unwrap_or(json!({}));
				for (a, b) in [("traces", "traces"), ("operations_in_threaded_phase", "ops"), ("crash_points", "crash_points"), ("images", "images"), ("distinct_images_recovered", "distinct"), ("power_loss_images", "power_loss"), ("subsets_capped", "capped")] {
					sum[a] = json!(sum[a].as_u64().unwrap() + j[b].as_u64().unwrap_or(0));
				}
				sum["max_dirty_pages"] = json!(sum["max_dirty_pages"].as_u64().unwrap().max(j["max_dirty"].as_u64().unwrap_or(0)));
				if let Some(o) = j["recovered_to"].as_object() {
					for (k, v) in o {
						let cur = sum["recovered_to"][k].as_u64().unwrap_or(0);
						sum["recovered_to"][k] = json!(cur + v.as_u64().unwrap_or(0));
					}
				}
				for f in j["failures"].as_array().cloned().unwrap_or_default() {
					let rendering = format!("{}: {}", f["kind"].as_str().unwrap_or("?"), f["msg"].as_str().unwrap_or("?"));
					let k = known.iter().find(|k| {
						k["property"] == report_prop.as_str() &&
							k["status"].as_str().map_or(false, |s| s == "open") &&
							k["signature"].as_array().map_or(false, |a| !a.is_empty() && a.iter().all(|s| rendering.contains(s.as_str().unwrap_or("\u{0}"))))
					});
					if let Some(k) = k {
						let l = format!("KNOWN-FINDING: property={} {} [{}]", report_prop, k["what"].as_str().unwrap_or(""), k["id"].as_str().unwrap_or(""));
						if !known_lines.contains(&l) {
							println!("{}", l);
							known_lines.push(l);
						}
						continue
					}
					violations += 1;
					let dir = out_root().join("replays");
					let _ = std::fs::create_dir_all(&dir);
					let src = PathBuf::from(f["file"].as_str().unwrap_or(""));
					let path = dir.join(format!("C12-loom-{}", src.file_name().map(|x| x.to_string_lossy().into_owned()).unwrap_or_default()));
					let _ = std::fs::copy(&src, &path);
					println!("VIOLATION property={} replay={}", report_prop, path.display());
					println!("  {}", rendering.chars().take(600).collect::<String>());
				}
			}
		}
		println!("  traces judged: {} distinct operation sequences, {} crash points, {} power-loss images, {} distinct images recovered (recovered to {})", sum["traces"], sum["crash_points"], sum["power_loss_images"], sum["distinct_images_recovered"], sum["recovered_to"]);
		if sum["traces"].as_u64() == Some(0) && violations == 0 {
			println!("MACHINERY-ERROR: no trace was recorded");
			std::process::exit(2)
		}
		trace_judgement = sum;
	}
	let _ = std::fs::remove_dir_all(&traces_root);
	let ev = json!({
		"property_id": report_prop, "tier": if tier == "thorough" { "thorough" } else { "quick" },
		"seed": std::env::var("VERIF_SEED").ok().and_then(|s| s.parse::<i64>().ok()).unwrap_or(0),
		"level": "model_checking",
		"coverage": {
			"states": total, "transitions": total, "traces_validated_against_impl": total,
			"evaluations": total, "distinct_nontrivial": total,
			"rule": "loom explores every interleaving of the scenario's threads at Mutex/RwLock/Condvar operations with at most the stated number of preemptions (DPOR); one schedule = one complete execution of the real code on a fresh database; states/transitions here count complete schedules (loom is stateless)",
			"parts": parts, "exhaustive": exhaustive, "io_traces_judged_for_power_loss": trace_judgement,
			"samples": [match prop.as_str() {
				"C03L" => json!({"scenario": "drop-anywhere/3-commits/all-workers", "threads": "log worker, flush worker, commit worker, cleanup worker (the crate's real loops), client: commit T1{h1:=a, b1:=b}, yield, commit T2{h1:=c, h2:=d, b2:=e}, yield, commit T3{del h2, del b1, b3:=f}, yield, shutdown, join, drop; then reopen without threads and read back"}),
				"C15" => json!({"scenario": "workers/2-small-commits", "threads": "log worker, flush worker, commit worker, cleanup worker (the crate's real loops), client: commit, commit, shutdown, join, drop, reopen, read back"}),
				"C05" => json!({"scenario": "hash/one-pipeline-thread", "threads": "writer: commit T1{k1,k2}, commit T2{k1, del k2}; pipeline: process_commits, flush, process_commits, enact, flush, enact, clean; reader: get k1, get k2, get k1 with the version assertions"}),
				"C11L" => json!({"scenario": "reader+pruner+writer/one-pipeline-thread", "threads": "reader: lock K1, walk, insert K2 reusing K1's child, walk again, unlock; pruner: [deref K1, b:=A]; writer: b:=B; pipeline thread"}),
				"C12L" => json!({"scenario": "backlog-2-files/commit+cleanup-workers", "threads": "2 commits logged+flushed without threads; commit worker and cleanup worker (real loops); client: yield, shutdown, join, drop; I/O trace recorded and judged for power loss at every operation boundary"}),
				"C16L" => json!({"scenario": "backlog-3-files/commit+cleanup-workers/fault-from-op-9", "threads": "3 commits logged+flushed without threads; every file operation from the 9th on fails with EIO; commit worker and cleanup worker (real loops); client: yield, commit, reads, shutdown, join, drop; fault off; reopen; read back"}),
				_ => json!({}),
			}],
			"known_findings_reported": known_lines,
		},
		"assumptions": ["sequentially consistent interleavings at lock/condvar operations; std atomics and mapped memory are not scheduling points of their own", "queue thresholds scaled down (commit queue 64 B, log queue 512 B, dirty log files 1): same code paths, smaller numbers", "no spurious condvar wake-ups (loom does not generate them)"],
		"wall_s": t0.elapsed().as_secs_f64(), "violations": violations,
	});
	let dir = out_root().join("evidence");
	let _ = std::fs::create_dir_all(&dir);
	std::fs::write(dir.join(format!("{}.json", evidence_name)), serde_json::to_string_pretty(&ev).unwrap()).unwrap();
	println!("{} {}: {} in {:.1}s ({} schedules)", prop, tier, if violations == 0 { "held on everything explored" } else { "VIOLATED" }, t0.elapsed().as_secs_f64(), total);
	std::process::exit(if violations == 0 { 0 } else { 1 });
}
