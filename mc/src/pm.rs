//! PM: the explicit model of the write pipeline (DESIGN §2.4), executed in lock-step with the
//! implementation. It predicts the boolean every stage call returns and the queue counters the
//! state digest exposes afterwards; a misprediction is a *model divergence* (machinery error),
//! never a property verdict.

use crate::core::*;
use parity_db::verif::Digest;
use std::collections::VecDeque;

#[derive(Clone, Debug, Default, PartialEq, Eq, Hash)]
pub struct Pm {
	pub enabled: bool,
	/// commits queued, not yet logged
	pub queue: usize,
	/// records in the log file being appended
	pub appending: usize,
	/// flushed (synced) log files waiting to be read: records in each
	pub readq: VecDeque<usize>,
	/// log file being read: records not yet enacted
	pub reading: Option<usize>,
	/// log files fully read, awaiting cleanup
	pub dirty: usize,
	/// cleaned files in the pool
	pub pool: usize,
	/// commits accepted / logged / synced / enacted so far (user commits only, in order)
	pub accepted: usize,
	pub logged: usize,
	pub synced: usize,
	pub enacted: usize,
	/// for each record in flight: is it a user commit (true) or an internal reindex record
	pub app_kinds: Vec<bool>,
	pub readq_kinds: VecDeque<Vec<bool>>,
	pub reading_kinds: VecDeque<bool>,
}

impl Pm {
	pub fn on() -> Pm {
		Pm { enabled: true, ..Default::default() }
	}

	/// Bit per stage (St as u8): can this stage event change the state?
	pub fn mask(&self) -> u8 {
		if !self.enabled {
			return 0xff
		}
		let mut m = 0u8;
		if self.queue > 0 {
			m |= 1 << (St::P as u8);
		}
		m |= 1 << (St::R as u8); // reindex work is not predicted: always offered
		if self.appending > 0 {
			m |= 1 << (St::F as u8);
		}
		if self.reading.is_some() || !self.readq.is_empty() {
			m |= 1 << (St::E as u8);
		}
		if self.dirty > 0 {
			m |= 1 << (St::K as u8);
		}
		m
	}

	pub fn commit(&mut self, _tx: &Tx, _cfg: &Config) {
		self.queue += 1;
		self.accepted += 1;
	}

	/// After a drain or a reopen nothing is in flight: every accepted commit is logged, synced
	/// and enacted; the only thing carried over is the pool of cleaned log files.
	pub fn sync_from(&mut self, d: &Digest) {
		let enabled = self.enabled;
		let a = self.accepted;
		*self = Pm { enabled, pool: d.log_pool, accepted: a, logged: a, synced: a, enacted: a, ..Default::default() };
	}

	/// Update with the observed outcome of stage `s`; check prediction against `b` and `d1`.
	pub fn step(&mut self, s: St, b: bool, _d0: &Digest, d1: &Digest) -> Result<(), String> {
		let predicted: Option<bool> = match s {
			St::P => Some(self.queue > 0),
			St::R => None,
			St::F => Some(self.appending > 0),
			St::E => Some(match self.reading {
				Some(n) => n > 0,
				None => self.readq.front().map_or(false, |n| *n > 0),
			}),
			St::K => Some(false),
		};
		if let Some(p) = predicted {
			if p != b {
				return Err(format!("PM predicted stage {} returns {}, implementation returned {} (pm={:?})", s.name(), p, b, self))
			}
		}
		match s {
			St::P =>
				if b {
					self.queue -= 1;
					if self.appending == 0 && self.pool > 0 {
						self.pool -= 1;
					}
					self.appending += 1;
					self.app_kinds.push(true);
					self.logged += 1;
				},
			St::R =>
				if b {
					if self.appending == 0 && self.pool > 0 {
						self.pool -= 1;
					}
					self.appending += 1;
					self.app_kinds.push(false);
				},
			St::F =>
				if b {
					self.readq.push_back(self.appending);
					let kinds = std::mem::take(&mut self.app_kinds);
					self.synced += kinds.iter().filter(|k| **k).count();
					self.readq_kinds.push_back(kinds);
					self.appending = 0;
				},
			St::E => {
				if self.reading.is_none() {
					if let Some(n) = self.readq.pop_front() {
						self.reading = Some(n);
						self.reading_kinds = self.readq_kinds.pop_front().unwrap().into();
					}
				}
				match self.reading {
					Some(0) => {
						self.reading = None;
						self.dirty += 1;
					},
					Some(n) => {
						self.reading = Some(n - 1);
						if self.reading_kinds.pop_front() == Some(true) {
							self.enacted += 1;
						}
					},
					None => (),
				}
			},
			St::K => {
				// with sync_data every dirty log is cleaned; the pool keeps at most 16
				self.pool = (self.pool + self.dirty).min(16);
				self.dirty = 0;
			},
		}
		let obs = (
			d1.commit_queue_len,
			d1.appending,
			d1.read_queue,
			d1.reading,
			d1.cleanup_queue,
			d1.log_pool,
		);
		let exp =
			(self.queue, self.appending > 0, self.readq.len(), self.reading.is_some(), self.dirty, self.pool);
		if obs != exp {
			return Err(format!(
				"PM counters after {}: model (queue, appending, readq, reading, dirty, pool) = {:?}, implementation = {:?}",
				s.name(), exp, obs
			))
		}
		Ok(())
	}
}
