//! Multitree support (C10, C11): node construction, address book, tree walks, locks.
//! (stub: filled in with the C10 engine)

use crate::core::*;
use crate::exec::*;
use crate::model::*;

#[derive(Default)]
pub struct AddrBook {}

pub struct HeldLock {}

pub fn to_new_node(_n: &NodeSpec, _col: u8, _ex: &Exec) -> Result<parity_db::NewNode, Fail> {
	Err(Fail::new("machinery", "trees not implemented".into()))
}

pub fn lock(_ex: &mut Exec, _c: u8, _k: &B) -> Result<(), Fail> {
	Err(Fail::new("machinery", "trees not implemented".into()))
}

pub fn check(_ex: &Exec, _c: u8, _t: &TreeModel, _queue_empty: bool) -> Result<(), Fail> {
	Ok(())
}

pub fn observe_model(_t: &TreeModel, _u: &[Vec<u8>]) -> String {
	String::new()
}

pub fn observe_db(_ex: &Exec, _c: u8) -> Result<String, Fail> {
	Ok(String::new())
}
