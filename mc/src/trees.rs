//! Multitree support (C08, C10, C11, crash sets): node construction, tree walks through the reader
//! API, expansion of the tree model, reader locks held across events.

use crate::core::*;
use crate::exec::*;
use crate::model::*;
use parity_db::{NewNode, NodeRef};
use std::panic::{catch_unwind, AssertUnwindSafe};

#[derive(Default)]
pub struct AddrBook {}

/// A fully expanded tree: data and children, recursively (DAGs are expanded at every use).
#[derive(Clone, Debug, PartialEq, Eq)]
pub struct Walk {
	pub data: Vec<u8>,
	pub children: Vec<Walk>,
}

impl Walk {
	pub fn render(&self) -> String {
		if self.children.is_empty() {
			format!("{}#{:x}", self.data.len(), fnv(&self.data, 3) & 0xffff_ffff)
		} else {
			format!(
				"{}#{:x}({})",
				self.data.len(),
				fnv(&self.data, 3) & 0xffff_ffff,
				self.children.iter().map(|c| c.render()).collect::<Vec<_>>().join(" ")
			)
		}
	}
	pub fn count(&self) -> usize {
		1 + self.children.iter().map(|c| c.count()).sum::<usize>()
	}
}

type Reader = std::sync::Arc<ReaderLock>;

pub type ReaderLock = parking_lot::RwLock<Box<dyn parity_db::TreeReader + Send + Sync>>;

/// A tree-reader read lock held across events (C11). The guard is forgotten, the lock released
/// explicitly on drop.
pub struct HeldLock {
	reader: Reader,
	/// the tree as read when the lock was taken: must stay readable and unchanged while held
	pub snapshot: Option<Walk>,
}

impl Drop for HeldLock {
	fn drop(&mut self) {
		unsafe { self.reader.force_unlock_read() };
	}
}

fn e2f(what: &str) -> impl Fn(parity_db::Error) -> Fail + '_ {
	move |e| Fail::new("error", format!("{} failed: {}", what, e))
}

/// Read a whole tree through the reader API. `held` avoids re-locking when the lock is already held.
pub fn read_tree(ex: &Exec, col: u8, key: &[u8]) -> Result<Option<Walk>, Fail> {
	let db = ex.db();
	let tree = db.get_tree(col, key).map_err(e2f("get_tree"))?;
	let tree = match tree {
		Some(t) => t,
		None => return Ok(None),
	};
	let already = ex.locks.contains_key(&(col, key.to_vec()));
	let w = {
		let guard = if already { None } else { Some(tree.read()) };
		// when the lock is held by this harness, read through a recursive read lock (no writer can be waiting:
		// single thread)
		let g2;
		let reader: &Box<dyn parity_db::TreeReader + Send + Sync> = match &guard {
			Some(g) => &**g,
			None => {
				g2 = tree.read_recursive();
				&*g2
			},
		};
		let root = reader.get_root().map_err(e2f("TreeReader::get_root"))?;
		match root {
			None => None,
			Some((data, children)) => {
				let mut w = Walk { data, children: vec![] };
				for a in children {
					w.children.push(read_node(reader.as_ref(), a, 0)?);
				}
				Some(w)
			},
		}
	};
	// direct access API must agree with the reader
	let spec = &ex.cfg.cols[col as usize];
	if spec.append_only || spec.direct_access {
		let direct = db.get_root(col, key).map_err(e2f("get_root"))?;
		match (&w, &direct) {
			(None, None) => (),
			(Some(w), Some((d, ch))) if &w.data == d && w.children.len() == ch.len() => {
				for (i, a) in ch.iter().enumerate() {
					let n = db.get_node(col, *a).map_err(e2f("get_node"))?;
					match n {
						Some((d, _)) if d == w.children[i].data => (),
						other => {
							return Err(Fail::new("mismatch", format!(
								"get_node(c{}, {:#x}) = {:?} disagrees with the tree reader ({}B)", col, a, other.map(|x| x.0.len()), w.children[i].data.len())))
						},
					}
				}
			},
			_ => {
				return Err(Fail::new("mismatch", format!(
					"get_root(c{}, {}) = {:?} disagrees with the tree reader {:?}", col, short_hex(key),
					direct.as_ref().map(|x| (x.0.len(), x.1.len())), w.as_ref().map(|w| w.render()))))
			},
		}
	}
	Ok(w)
}

fn read_node(reader: &(dyn parity_db::TreeReader + Send + Sync), addr: u64, depth: usize) -> Result<Walk, Fail> {
	if depth > 64 {
		return Err(Fail::new("mismatch", "tree deeper than 64 levels (cycle?)".into()))
	}
	let n = reader.get_node(addr).map_err(e2f("TreeReader::get_node"))?;
	let (data, children) = match n {
		Some(x) => x,
		None => return Err(Fail::new("mismatch", format!("dangling child: node at address {:#x} is missing", addr))),
	};
	let ch2 = reader.get_node_children(addr).map_err(e2f("TreeReader::get_node_children"))?;
	if ch2.as_ref() != Some(&children) {
		return Err(Fail::new("mismatch", format!("get_node_children({:#x}) = {:?} but get_node lists {:?}", addr, ch2, children)))
	}
	let mut w = Walk { data, children: vec![] };
	for a in children {
		w.children.push(read_node(reader, a, depth + 1)?);
	}
	Ok(w)
}

/// Address of the node (root key, path) in the implementation.
fn resolve_addr(ex: &Exec, col: u8, root: &[u8], path: &[u32]) -> Result<u64, Fail> {
	let bad = |why: &str| Fail::new("machinery", format!("cannot resolve existing node {}/{:?}: {}", short_hex(root), path, why));
	let db = ex.db();
	let tree = db.get_tree(col, root).map_err(e2f("get_tree"))?.ok_or_else(|| bad("root not found"))?;
	let already = ex.locks.contains_key(&(col, root.to_vec()));
	let g = if already { tree.read_recursive() } else { tree.read() };
	let (_, mut children) = g.get_root().map_err(e2f("get_root"))?.ok_or_else(|| bad("root not readable"))?;
	let mut addr = 0;
	for (i, p) in path.iter().enumerate() {
		addr = *children.get(*p as usize).ok_or_else(|| bad("path out of range"))?;
		if i + 1 < path.len() {
			children = g.get_node_children(addr).map_err(e2f("get_node_children"))?.ok_or_else(|| bad("node missing"))?;
		}
	}
	if path.is_empty() {
		return Err(bad("empty path"))
	}
	Ok(addr)
}

pub fn to_new_node(n: &NodeSpec, col: u8, ex: &Exec) -> Result<NewNode, Fail> {
	let mut children = vec![];
	for c in &n.children {
		children.push(match c {
			ChildSpec::New(n) => NodeRef::New(to_new_node(n, col, ex)?),
			ChildSpec::Existing(root, path) => NodeRef::Existing(resolve_addr(ex, col, &root.bytes(), path)?),
		});
	}
	Ok(NewNode { data: n.data.bytes(), children })
}

pub fn lock(ex: &mut Exec, c: u8, k: &B) -> Result<(), Fail> {
	let key = k.bytes();
	if ex.locks.contains_key(&(c, key.clone())) {
		return Ok(())
	}
	let tree = ex.db().get_tree(c, &key).map_err(e2f("get_tree"))?;
	if let Some(tree) = tree {
		let g = tree.read();
		std::mem::forget(g);
		ex.locks.insert((c, key.clone()), HeldLock { reader: tree, snapshot: None });
		let snap = read_tree(ex, c, &key)?;
		ex.locks.get_mut(&(c, key)).unwrap().snapshot = snap;
	}
	Ok(())
}

pub fn expand(t: &TreeModel, root: &[u8]) -> Option<Walk> {
	let (data, children, _) = t.roots.get(root)?;
	Some(Walk { data: data.clone(), children: children.iter().map(|c| expand_node(t, *c)).collect() })
}

fn expand_node(t: &TreeModel, id: u64) -> Walk {
	let n = &t.nodes[&id];
	Walk { data: n.data.clone(), children: n.children.iter().map(|c| expand_node(t, *c)).collect() }
}

pub fn check(ex: &Exec, c: u8, t: &TreeModel, queue_empty: bool) -> Result<(), Fail> {
	// C11: a tree whose reader lock is held stays readable and unchanged, whatever was committed meanwhile
	for ((lc, key), held) in ex.locks.iter() {
		if *lc != c {
			continue
		}
		let got = catch_unwind(AssertUnwindSafe(|| read_tree(ex, c, key)))
			.map_err(|e| Fail::new("panic", format!("tree read panicked: {}", panic_msg(e))))??;
		if got != held.snapshot {
			return Err(Fail::new("locked-tree-changed", format!(
				"tree c{}/{} changed while its reader lock is held: was {}, now {}", c, short_hex(key),
				held.snapshot.as_ref().map_or("None".into(), |w| w.render()), got.as_ref().map_or("None".into(), |w| w.render()))))
		}
	}
	for k in ex.universe[c as usize].iter() {
		let exp = expand(t, k);
		let got = catch_unwind(AssertUnwindSafe(|| read_tree(ex, c, k)))
			.map_err(|e| Fail::new("panic", format!("tree read panicked: {}", panic_msg(e))))??;
		match (&exp, &got) {
			(Some(e), Some(g)) if e == g => (),
			(Some(e), g) => {
				return Err(Fail::new("mismatch", format!(
					"tree c{}/{}: expected {}, got {}", c, short_hex(k), e.render(), g.as_ref().map_or("None".into(), |g| g.render()))))
			},
			(None, Some(g)) if queue_empty => {
				return Err(Fail::new("mismatch", format!(
					"tree c{}/{}: no live tree in the model and every commit is logged; got {}", c, short_hex(k), g.render())))
			},
			_ => (),
		}
	}
	if queue_empty && ex.check_entries {
		match ex.db().get_num_column_value_entries(c) {
			Ok(n) =>
				if n != t.total_entries() {
					return Err(Fail::new("entries-mismatch", format!(
						"get_num_column_value_entries(c{}) = {}, model holds {} roots + {} nodes", c, n, t.roots.len(), t.nodes.len())))
				},
			Err(_) => (), // multipart entries present: the API cannot count them
		}
	}
	Ok(())
}

pub fn observe_model(t: &TreeModel, u: &[Vec<u8>]) -> String {
	u.iter().map(|k| expand(t, k).map_or("-".to_string(), |w| w.render())).collect::<Vec<_>>().join(",")
}

pub fn observe_db(ex: &Exec, c: u8) -> Result<String, Fail> {
	let mut v = vec![];
	for k in ex.universe[c as usize].iter() {
		v.push(read_tree(ex, c, k)?.map_or("-".to_string(), |w| w.render()));
	}
	Ok(v.join(","))
}
