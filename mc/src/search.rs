//! E1 `seqmc`: bounded exhaustive exploration of histories x stage schedules over the real `Db`.
//!
//! A state is represented by a history that reaches it (live `Db` objects cannot be copied: a
//! node is rebuilt by replaying its history in a fresh directory). Breadth-first graph search;
//! state identity = (in-memory digest H4, hash of all file bytes, model state, PM state, harness
//! extras). Every edge (state, event) is executed exactly once.

use crate::core::*;
use crate::exec::*;
use crate::report::*;
use serde_json::json;
use std::collections::{HashMap, HashSet};
use std::path::{Path, PathBuf};
use std::sync::Arc;

pub type ExtraFn = dyn Fn(&[Ev]) -> Vec<Ev> + Sync + Send;
pub type PostFn = dyn Fn(&mut Exec, &[Ev]) -> Result<(), Fail> + Sync + Send;
pub type FilterFn = dyn Fn(&[Ev], &Ev) -> bool + Sync + Send;

/// thorough tier: every graph search validates its state identity (see `Scenario::merge_check`)
pub static MERGE_CHECK_DEFAULT: std::sync::atomic::AtomicBool = std::sync::atomic::AtomicBool::new(false);

#[derive(Clone)]
pub struct Scenario {
	/// property whose known-findings list applies
	pub property: String,
	pub name: String,
	pub cfg: Config,
	/// commit choices, simplest first
	pub alphabet: Vec<Tx>,
	/// keys the oracle reads, per column
	pub universe: Arc<Vec<Vec<Vec<u8>>>>,
	/// bound on accepted commits per history
	pub max_commits: usize,
	/// bound on rejected commits per history
	pub max_rejects: usize,
	pub max_reopen: usize,
	pub stages: Vec<St>,
	pub max_depth: usize,
	pub pm: bool,
	/// events executed before the search starts (non-initial start state); oracle applies
	pub init: Vec<Ev>,
	/// additional, scenario-specific events offered at a node
	pub extra: Option<Arc<ExtraFn>>,
	/// additional oracle evaluated after every edge (after the standard one)
	pub post: Option<Arc<PostFn>>,
	/// keep only candidate events for which this returns true (history so far, candidate)
	pub filter: Option<Arc<FilterFn>>,
	/// offer Drain as an event (collapses the rest of the pipeline in one step)
	pub drain_event: bool,
	/// enumerate crash images of every edge's event (E2)
	pub crash: Option<crate::crashmc::CrashCfg>,
	/// inject a persistent I/O failure at every file-operation index of every edge's event (E2 family 5)
	pub faults: bool,
	/// after the failing step: one more enact and cleanup step, then a power loss (C12 x C16)
	pub faults_then_power_loss: bool,
	/// bound on the fault indices tried per step with the crate's own injector (its sites include the in-memory
	/// reads of a reindex scan: tens of thousands per step); None = all (error beyond 400). The syscall injector is
	/// never capped.
	pub fault_site_cap: Option<usize>,
	pub check_iter_rc: bool,
	/// validate the state identity: for one alternative history per merged state, re-execute every event and
	/// compare the successor identities with those of the state's representative
	pub merge_check: bool,
}

impl Scenario {
	pub fn new(name: &str, cfg: Config, alphabet: Vec<Tx>) -> Scenario {
		let universe = universe_of(&cfg, &alphabet, &[]);
		Scenario {
			property: String::new(),
			name: name.into(),
			cfg,
			alphabet,
			universe,
			max_commits: 2,
			max_rejects: 1,
			max_reopen: 1,
			stages: ALL_STAGES.to_vec(),
			max_depth: 64,
			pm: true,
			init: vec![],
			extra: None,
			post: None,
			filter: None,
			drain_event: false,
			crash: None,
			faults: false,
			faults_then_power_loss: false,
			fault_site_cap: None,
			check_iter_rc: true,
			merge_check: std::env::var("PDBMC_MERGE_CHECK").is_ok() || MERGE_CHECK_DEFAULT.load(std::sync::atomic::Ordering::SeqCst),
		}
	}
}

/// All keys that appear in the alphabet (plus `more`), per column, sorted and deduplicated.
pub fn universe_of(cfg: &Config, alphabet: &[Tx], more: &[(u8, B)]) -> Arc<Vec<Vec<Vec<u8>>>> {
	let mut u: Vec<Vec<Vec<u8>>> = vec![vec![]; cfg.cols.len()];
	for tx in alphabet {
		for (c, op) in tx {
			if (*c as usize) < u.len() {
				u[*c as usize].push(op.key().bytes());
			}
		}
	}
	for (c, k) in more {
		u[*c as usize].push(k.bytes());
	}
	for c in u.iter_mut() {
		c.sort();
		c.dedup();
	}
	Arc::new(u)
}

#[derive(Clone, Debug, Default)]
pub struct Stats {
	pub executions: u64,
	pub states: u64,
	pub transitions: u64,
	pub noop_edges: u64,
	pub skipped_blocking: u64,
	pub max_depth: usize,
	pub distinct_obs: u64,
	pub multi_stage_states: u64,
	pub pm_validated_traces: u64,
	pub pm_steps_checked: u64,
	pub rejected_commits: u64,
	pub levels: Vec<(usize, usize)>,
	/// a few of the histories actually executed (the deepest representative of some levels)
	pub samples: Vec<String>,
	pub known_hits: std::collections::BTreeMap<String, u64>,
	pub crash: crate::crashmc::CrashStats,
	pub faults: crate::faultmc::FaultStats,
	pub complete: bool,
	pub capped_reason: Option<String>,
	/// merged states whose alternative history was re-expanded / edges compared (state identity validation)
	pub merge_checked_states: u64,
	pub merge_checked_edges: u64,
	/// of these: successors equal in everything but the byte layout of log records
	pub merge_layout_only: u64,
}

impl Stats {
	pub fn add(&mut self, o: &Stats) {
		self.executions += o.executions;
		self.merge_checked_states += o.merge_checked_states;
		self.merge_checked_edges += o.merge_checked_edges;
		self.merge_layout_only += o.merge_layout_only;
		self.states += o.states;
		self.transitions += o.transitions;
		self.noop_edges += o.noop_edges;
		self.skipped_blocking += o.skipped_blocking;
		self.max_depth = self.max_depth.max(o.max_depth);
		self.distinct_obs += o.distinct_obs;
		self.multi_stage_states += o.multi_stage_states;
		self.pm_validated_traces += o.pm_validated_traces;
		self.pm_steps_checked += o.pm_steps_checked;
		self.rejected_commits += o.rejected_commits;
		for (k, v) in o.known_hits.iter() {
			*self.known_hits.entry(k.clone()).or_insert(0) += v;
		}
		self.crash.merge(&o.crash);
		self.faults.merge(&o.faults);
		self.complete &= o.complete;
		if self.capped_reason.is_none() {
			self.capped_reason = o.capped_reason.clone();
		}
	}
	pub fn new_complete() -> Stats {
		Stats { complete: true, ..Default::default() }
	}
}

pub struct Found {
	pub scenario: String,
	pub cfg: Config,
	pub history: Vec<Ev>,
	pub fail: Fail,
}

/// Hash of all file bytes in the database directory (sparse aware; all-zero pages are skipped
/// so that allocation differences do not matter).
pub fn hash_dir(dir: &Path) -> u64 {
	hash_dir_opt(dir, false)
}

/// `skip_log_content`: log files enter with name and length only. The byte layout of a log record depends on the
/// iteration order of std hash maps inside the crate (which column's changes come first), and that order depends on
/// how many hash maps the thread has created before: two histories reaching the same state may write the same
/// record in two layouts. Tables and indexes do not depend on it.
pub fn hash_dir_opt(dir: &Path, skip_log_content: bool) -> u64 {
	use std::os::unix::io::AsRawFd;
	let mut names: Vec<String> = std::fs::read_dir(dir)
		.map(|rd| rd.filter_map(|e| e.ok()).map(|e| e.file_name().to_string_lossy().into_owned()).collect())
		.unwrap_or_default();
	names.sort();
	let mut h: u64 = 0xcbf29ce484222325;
	let mut buf = vec![0u8; 1 << 16];
	for n in names {
		if n == "lock" {
			continue
		}
		let p = dir.join(&n);
		let f = match std::fs::File::open(&p) {
			Ok(f) => f,
			Err(_) => continue,
		};
		let len = f.metadata().map(|m| m.len()).unwrap_or(0);
		h = fnv(n.as_bytes(), h);
		h = fnv(&len.to_le_bytes(), h);
		if skip_log_content && n.starts_with("log") {
			continue
		}
		let fd = f.as_raw_fd();
		let mut pos: i64 = 0;
		loop {
			let data = unsafe { libc::lseek(fd, pos, libc::SEEK_DATA) };
			if data < 0 {
				break
			}
			let hole = unsafe { libc::lseek(fd, data, libc::SEEK_HOLE) };
			let end = if hole < 0 { len as i64 } else { hole };
			let mut off = data;
			while off < end {
				let n = ((end - off) as usize).min(buf.len());
				let r = unsafe { libc::pread(fd, buf.as_mut_ptr() as *mut libc::c_void, n, off) };
				if r <= 0 {
					break
				}
				let r = r as usize;
				// page-wise, skipping zero pages
				let mut i = 0;
				while i < r {
					let j = (i + 4096).min(r);
					let page = &buf[i..j];
					if page.iter().any(|b| *b != 0) {
						h = fnv(&(((off as usize + i) / 4096) as u64).to_le_bytes(), h);
						h = fnv(page, h);
					}
					i = j;
				}
				off += r as i64;
			}
			pos = end;
			if pos >= len as i64 {
				break
			}
		}
	}
	h
}

pub struct EdgeOut {
	pub identity: u128,
	/// the parts the identity is made of: digest (2 halves), file bytes, model, harness extras (diagnosis only)
	pub parts: [u64; 6],
	pub model: u64,
	pub obs: u64,
	pub multi_stage: bool,
	pub pm_steps: u64,
	pub rejected: bool,
	/// stage events the pipeline model considers able to change the state here (bit per St)
	pub pm_mask: u8,
	/// ids of listed known findings that this execution ran into (tolerated, reported once)
	pub known: Vec<String>,
	pub crash: crate::crashmc::CrashStats,
	pub faults: crate::faultmc::FaultStats,
}

pub enum EdgeRes {
	Ok(EdgeOut),
	/// event cannot be taken here (would block, or not applicable)
	Skip,
	Fail(Fail),
}

pub fn build(scn: &Scenario, dir: &Path) -> Result<Exec, Fail> {
	let mut ex = Exec::new(dir, &scn.cfg, scn.universe.clone())?;
	ex.pm.enabled = scn.pm;
	ex.check_iter_rc = scn.check_iter_rc;
	Ok(ex)
}

/// Execute `hist` then `ev` from scratch in `dir`; evaluate the oracle after `ev`.
pub fn run_edge(scn: &Scenario, dir: &Path, hist: &[Ev], ev: Option<&Ev>) -> EdgeRes {
	crate::interpose::fresh_thread(|| run_edge_here(scn, dir, hist, ev))
}

fn run_edge_here(scn: &Scenario, dir: &Path, hist: &[Ev], ev: Option<&Ev>) -> EdgeRes {
	if scn.crash.is_some() {
		crate::exec::wipe_dir(dir);
		crate::crash::start(dir);
	}
	let mut ex = match build(scn, dir) {
		Ok(ex) => ex,
		Err(f) => {
			crate::crash::stop();
			return EdgeRes::Fail(f)
		},
	};
	ex.record_prefix = scn.crash.is_some();
	let mut r = run_edge_inner(scn, hist, ev, ex);
	crate::crash::stop();
	if let (true, Some(ev), EdgeRes::Ok(o)) = (scn.faults, ev, &mut r) {
		let fdir = dir.with_extension("faults");
		let mut fs = crate::faultmc::FaultStats::default();
		let fr = crate::faultmc::sweep(scn, &fdir, hist, ev, &mut fs);
		let _ = std::fs::remove_dir_all(&fdir);
		match fr {
			Ok(()) => o.faults = fs,
			Err(f) => return EdgeRes::Fail(f),
		}
	}
	r
}

fn run_edge_inner(scn: &Scenario, hist: &[Ev], ev: Option<&Ev>, mut ex: Exec) -> EdgeRes {
	let res = (|| -> Result<Option<EdgeOut>, Fail> {
		for e in scn.init.iter().chain(hist.iter()) {
			ex.apply(e)?;
		}
		let rejected_before = ex.rejected;
		let ops_before = if scn.crash.is_some() { crate::crash::ops_len() } else { 0 };
		let pm_before = ex.pm.clone();
		if scn.pm && ev.is_some() {
			// Stage events the pipeline model calls disabled here are not given an edge of their own;
			// instead each is executed right now and must return false and leave the digest unchanged.
			let mask = ex.pm.mask();
			let d0 = ex.digest();
			for s in scn.stages.iter() {
				if mask & (1 << (*s as u8)) == 0 {
					ex.apply(&Ev::Stage(*s))?;
					if ex.last_stage_result != Some(false) || ex.digest() != d0 {
						return Err(Fail::new("model-divergence", format!(
							"stage {} is disabled in the pipeline model but changed the implementation state (returned {:?})",
							s.name(), ex.last_stage_result)))
					}
				}
			}
		}
		if let Some(ev) = ev {
			if matches!(ev, Ev::Stage(St::E)) && ex.enact_would_block() {
				return Ok(None)
			}
			ex.apply(ev)?;
		}
		let mut known = vec![];
		for f in ex.check_all() {
			match crate::report::match_known(&scn.property, &format!("{}: {}", f.kind, f.msg)) {
				Some(k) => known.push(k.id.clone()),
				None => return Err(f),
			}
		}
		if let Some(post) = &scn.post {
			let mut full: Vec<Ev> = hist.to_vec();
			if let Some(ev) = ev {
				full.push(ev.clone());
			}
			post(&mut ex, &full)?;
		}
		let mut crash_stats = crate::crashmc::CrashStats::default();
		if let Some(cc) = &scn.crash {
			let ops = crate::crash::stop();
			// conformance of the shadow file system to the real one
			let mut sh = crate::crash::Shadow::new();
			for op in ops.iter() {
				crate::crash::apply(&mut sh, op);
			}
			crate::crash::compare_with_dir(&sh, &ex.dir).map_err(|m| Fail::new("machinery", format!("shadow file system diverged from the real files: {}", m)))?;
			let mut models = vec![crate::model::Model::new(&scn.cfg)];
			models.extend(ex.prefix.iter().cloned());
			let prefix_obs: Vec<String> = models.iter().map(|m| crate::observe::observe_model(m, &scn.universe)).collect();
			let ctx = crate::crashmc::Ctx { cfg: &scn.cfg, universe: scn.universe.clone(), prefix_obs, prefix: &models, accepted: &ex.accepted_txs, crash: cc, property: &scn.property };
			let from = if ev.is_none() { if cc.creation { 0 } else { ops.len() } } else { ops_before };
			// only flush_one (stage F, and the drop inside reopen / drain) makes appended records durable; the
			// fsync of a cleaned (truncated) log file in stage K says nothing about the file being appended
			let syncs_wal = matches!(ev, Some(Ev::Stage(St::F)) | Some(Ev::Reopen) | Some(Ev::Drain));
			let (lo0, lo1) = if scn.pm { (pm_before.synced, if syncs_wal { pm_before.logged } else { pm_before.synced }) } else { (0, 0) };
			let what = format!("during {}", ev.map_or("creation".to_string(), |e| e.short()));
			crate::crashmc::enumerate(&ctx, &ops, from, lo0, lo1, models.len() - 1, &what, &mut crash_stats)?;
		}
		let d = ex.digest();
		let obs = ex.observe()?;
		let files = hash_dir(&ex.dir);
		let mut extra: u64 = 0xcbf29ce484222325;
		{
			use std::hash::{Hash, Hasher};
			let mut h = std::collections::hash_map::DefaultHasher::new();
			ex.pm.hash(&mut h);
			ex.it.as_ref().map(|i| (i.col, i.pos.clone(), i.state_string())).hash(&mut h);
			ex.last_it_result.hash(&mut h);
			ex.locks.keys().collect::<Vec<_>>().hash(&mut h);
			extra = fnv(&h.finish().to_le_bytes(), extra);
		}
		let mut id = parity_db::verif::Hasher::default();
		id.u64((d.hash >> 64) as u64);
		id.u64(d.hash as u64);
		id.u64(files);
		id.u64(ex.model.hash());
		id.u64(extra);
		let stages_busy = (d.commit_queue_len > 0) as u32 +
			(d.appending) as u32 +
			(d.read_queue > 0 || d.reading) as u32 +
			(d.cleanup_queue > 0) as u32;
		Ok(Some(EdgeOut {
			identity: id.finish(),
			parts: [(d.hash >> 64) as u64, d.hash as u64, files, ex.model.hash(), extra, if scn.merge_check { hash_dir_opt(&ex.dir, true) } else { 0 }],
			model: ex.model.hash(),
			obs: fnv(obs.as_bytes(), 0xcbf29ce484222325),
			multi_stage: stages_busy >= 2,
			pm_steps: ex.pm_checked,
			rejected: ex.rejected > rejected_before,
			pm_mask: ex.pm.mask(),
			known,
			crash: crash_stats,
			faults: Default::default(),
		}))
	})();
	match res {
		Ok(Some(o)) => {
			if let Err(f) = ex.close() {
				return EdgeRes::Fail(f)
			}
			EdgeRes::Ok(o)
		},
		Ok(None) => {
			let _ = ex.close();
			EdgeRes::Skip
		},
		Err(f) => {
			if f.kind == "panic" {
				ex.abandon();
			} else {
				let _ = std::panic::catch_unwind(std::panic::AssertUnwindSafe(|| {
					let _ = ex.close();
				}));
			}
			EdgeRes::Fail(f)
		},
	}
}

struct Node {
	id: u128,
	hist: Vec<Ev>,
	rejects: usize,
	commits: usize,
	reopens: usize,
	pm_mask: u8,
}

fn events_at(scn: &Scenario, n: &Node) -> Vec<Ev> {
	let mut v = vec![];
	if n.commits < scn.max_commits {
		for tx in scn.alphabet.iter() {
			v.push(Ev::Commit(tx.clone()));
		}
	}
	for s in scn.stages.iter() {
		if !scn.pm || n.pm_mask & (1 << (*s as u8)) != 0 {
			v.push(Ev::Stage(*s));
		}
	}
	if scn.drain_event {
		v.push(Ev::Drain);
	}
	if n.reopens < scn.max_reopen {
		v.push(Ev::Reopen);
	}
	if let Some(f) = &scn.extra {
		v.extend(f(&n.hist));
	}
	if let Some(f) = &scn.filter {
		v.retain(|e| f(&n.hist, e));
	}
	v
}

static BASE: std::sync::OnceLock<String> = std::sync::OnceLock::new();

/// Scratch directory (per top-level process; forked workers inherit the base path).
pub fn workdir(tag: &str) -> PathBuf {
	let base = BASE.get_or_init(|| {
		let base = std::env::var("PDBMC_SCRATCH").unwrap_or_else(|_| "/dev/shm".into());
		format!("{}/pdbmc-{}", base, std::process::id())
	});
	PathBuf::from(format!("{}/{}", base, tag))
}

pub fn worker_dir() -> PathBuf {
	workdir(&format!("w{}", std::process::id()))
}

pub fn cleanup_scratch() {
	let _ = std::fs::remove_dir_all(workdir(""));
}

pub fn nthreads() -> usize {
	std::env::var("PDBMC_THREADS").ok().and_then(|s| s.parse().ok()).unwrap_or_else(|| {
		std::thread::available_parallelism().map(|n| n.get()).unwrap_or(8)
	})
}

/// Breadth-first graph search. Returns statistics and the first violation (if any), minimised.
pub fn graph_search(scn: &Scenario, budget: &Budget) -> (Stats, Option<Found>) {
	let mut stats = Stats::new_complete();
	let threads = nthreads();
	let mut seen: HashSet<u128> = HashSet::new();
	let mut obs_seen: HashSet<u64> = HashSet::new();
	let root_dir = workdir(&format!("{}-root", sanitize(&scn.name)));
	// root
	let mut root = Node { id: 0, hist: vec![], rejects: 0, commits: 0, reopens: 0, pm_mask: 0xff };
	let mut succ: HashMap<u128, HashMap<String, (u128, [u64; 6])>> = HashMap::new();
	let mut alts: HashMap<u128, Node> = HashMap::new();
	let mut reps: HashMap<u128, Vec<Ev>> = HashMap::new();
	match run_edge(scn, &root_dir, &[], None) {
		EdgeRes::Ok(o) => {
			seen.insert(o.identity);
			obs_seen.insert(o.obs);
			stats.executions += 1;
			stats.crash.merge(&o.crash);
			root.pm_mask = o.pm_mask;
			root.id = o.identity;
		},
		EdgeRes::Skip => unreachable!(),
		EdgeRes::Fail(f) => {
			let _ = std::fs::remove_dir_all(&root_dir);
			return (stats, Some(Found { scenario: scn.name.clone(), cfg: scn.cfg.clone(), history: scn.init.clone(), fail: f }))
		},
	}
	let _ = std::fs::remove_dir_all(&root_dir);
	let mut frontier = vec![root];
	let mut depth = 0;
	while !frontier.is_empty() {
		if depth >= scn.max_depth {
			stats.complete = false;
			stats.capped_reason = Some(format!("max_depth {} reached with {} frontier states", scn.max_depth, frontier.len()));
			break
		}
		// all edges of this level
		let mut edges: Vec<(usize, Ev)> = vec![];
		for (i, n) in frontier.iter().enumerate() {
			for ev in events_at(scn, n) {
				edges.push((i, ev));
			}
		}
		stats.levels.push((frontier.len(), edges.len()));
		if budget.exceeded() {
			stats.complete = false;
			stats.capped_reason = Some(format!("wall budget reached at depth {} ({} frontier states unexplored)", depth, frontier.len()));
			break
		}
		let items = crate::par::par_map(edges.len(), threads, "edge", |i| {
			let (ni, ev) = &edges[i];
			let r = run_edge(scn, &worker_dir(), &frontier[*ni].hist, Some(ev));
			let stop = matches!(r, EdgeRes::Fail(_));
			(encode_edge(&r), stop)
		});
		let results: Vec<Option<EdgeRes>> = items
			.into_iter()
			.map(|it| match it {
				crate::par::Item::Done(b) => Some(decode_edge(&b)),
				crate::par::Item::Crashed(why) => Some(EdgeRes::Fail(Fail::new("abort", format!("process died during the execution: {}", why)))),
				crate::par::Item::NotRun => None,
			})
			.collect();
		// sequential, deterministic merge
		let mut next_frontier = vec![];
		for (i, r) in results.into_iter().enumerate() {
			let r = match r {
				Some(r) => r,
				None => continue, // not run because a failure stopped the level
			};
			stats.executions += 1;
			let (ni, ev) = &edges[i];
			match r {
				EdgeRes::Skip => stats.skipped_blocking += 1,
				EdgeRes::Fail(f) => {
					let mut h = scn.init.clone();
					h.extend(frontier[*ni].hist.iter().cloned());
					h.push(ev.clone());
					stats.states = seen.len() as u64;
					stats.distinct_obs = obs_seen.len() as u64;
					return (stats, Some(Found { scenario: scn.name.clone(), cfg: scn.cfg.clone(), history: h, fail: f }))
				},
				EdgeRes::Ok(o) => {
					stats.pm_steps_checked += o.pm_steps;
					if o.pm_steps > 0 {
						stats.pm_validated_traces += 1;
					}
					if o.rejected {
						stats.rejected_commits += 1;
					}
					for k in o.known.iter() {
						*stats.known_hits.entry(k.clone()).or_insert(0) += 1;
					}
					stats.crash.merge(&o.crash);
					stats.faults.merge(&o.faults);
					if scn.merge_check {
						succ.entry(frontier[*ni].id).or_default().insert(format!("{:?}", ev), (o.identity, o.parts));
					}
					if o.rejected && frontier[*ni].rejects >= scn.max_rejects {
						// the rejected commit was executed and judged; its successor state is beyond the bound
						stats.transitions += 1;
						continue
					}
					if seen.insert(o.identity) {
						stats.transitions += 1;
						if o.multi_stage {
							stats.multi_stage_states += 1;
						}
						obs_seen.insert(o.obs);
						let p = &frontier[*ni];
						let mut hist = p.hist.clone();
						hist.push(ev.clone());
						if scn.merge_check {
							reps.insert(o.identity, hist.clone());
						}
						next_frontier.push(Node {
							id: o.identity,
							hist,
							rejects: p.rejects + o.rejected as usize,
							commits: p.commits + (matches!(ev, Ev::Commit(_)) && !o.rejected) as usize,
							reopens: p.reopens + matches!(ev, Ev::Reopen) as usize,
							pm_mask: o.pm_mask,
						});
					} else {
						// edge into a known state (includes no-op events)
						stats.transitions += 1;
						stats.noop_edges += 1;
						if scn.merge_check && !alts.contains_key(&o.identity) {
							let p = &frontier[*ni];
							let mut hist = p.hist.clone();
							hist.push(ev.clone());
							alts.insert(o.identity, Node {
								id: o.identity,
								hist,
								rejects: p.rejects + o.rejected as usize,
								commits: p.commits + (matches!(ev, Ev::Commit(_)) && !o.rejected) as usize,
								reopens: p.reopens + matches!(ev, Ev::Reopen) as usize,
								pm_mask: o.pm_mask,
							});
						}
					}
				},
			}
		}
		depth += 1;
		if !next_frontier.is_empty() {
			stats.max_depth = depth;
			if stats.samples.len() < 12 {
				let n = &next_frontier[next_frontier.len() / 2];
				let mut h = scn.init.clone();
				h.extend(n.hist.iter().cloned());
				let s = hist_short(&h);
				stats.samples.push(if s.len() > 600 { format!("{}...", &s[..600]) } else { s });
			}
		}
		frontier = next_frontier;
	}
	stats.states = seen.len() as u64;
	stats.distinct_obs = obs_seen.len() as u64;
	// State identity validation: a history that was dropped because it reached a known state must have the
	// same futures as the state's representative. For one such history per state, every event that is enabled for
	// both is executed once more and must lead to the state the representative's edge led to. A difference means
	// the identity (digest + file bytes + model + ...) misses something the implementation's behaviour depends on:
	// a defect of the machinery, never a verdict about the property.
	// (not in crash / fault scenarios: there the recorder and the prefix list are part of the execution; the same
	// state spaces are validated by the plain scenarios of the same families)
	if scn.merge_check && stats.complete && scn.crash.is_none() && !scn.faults {
		let mut plain = scn.clone();
		plain.crash = None;
		plain.faults = false;
		let mut work: Vec<(u128, Vec<Ev>, Ev)> = vec![];
		let mut ids: Vec<&u128> = alts.keys().collect();
		ids.sort();
		for id in ids {
			let alt = &alts[id];
			let known = match succ.get(id) {
				Some(k) => k,
				None => continue, // a state at the bound: never expanded
			};
			let mut any = false;
			for ev in events_at(scn, alt) {
				if known.contains_key(&format!("{:?}", ev)) {
					work.push((*id, alt.hist.clone(), ev));
					any = true;
				}
			}
			if any {
				stats.merge_checked_states += 1;
			}
		}
		// in slices, so that the wall budget also bounds this phase (what was compared is reported)
		let mut done = 0usize;
		while done < work.len() {
			if budget.exceeded() {
				break
			}
			let slice = &work[done..(done + 4000).min(work.len())];
			let items = crate::par::par_map(slice.len(), threads, "merge", |i| {
				let (_, hist, ev) = &slice[i];
				let r = run_edge(&plain, &worker_dir(), hist, Some(ev));
				(encode_edge(&r), false)
			});
			for (i, it) in items.into_iter().enumerate() {
				let (id, hist, ev) = &slice[i];
				let r = match it {
					crate::par::Item::Done(b) => decode_edge(&b),
					_ => continue,
				};
				stats.executions += 1;
				if let EdgeRes::Ok(o) = r {
					stats.merge_checked_edges += 1;
					let (want, wparts) = succ[id][&format!("{:?}", ev)];
					// same successor, or the same up to the byte layout of log records (see `hash_dir_opt`)
					let same_but_layout = [0usize, 1, 3, 4, 5].iter().all(|i| o.parts[*i] == wparts[*i]);
					if o.identity != want && same_but_layout {
						stats.merge_layout_only += 1;
					}
					if o.identity != want && !same_but_layout {
						let mut h = scn.init.clone();
						h.extend(hist.iter().cloned());
						h.push(ev.clone());
						// diagnosis: which part of the identity differs (the representative's edge is executed once more)
						let rep = reps.get(id).cloned().unwrap_or_default();
						let names = ["in-memory digest (high)", "in-memory digest (low)", "file bytes", "model", "harness extras (pipeline model, iterator, locks)", "file bytes without log contents"];
						let diff = match run_edge(&plain, &worker_dir(), &rep, Some(ev)) {
							EdgeRes::Ok(r) => format!("representative history: {} ; differing parts: {:?}", hist_short(&rep), (0..6).filter(|i| r.parts[*i] != o.parts[*i]).map(|i| names[i]).collect::<Vec<_>>()),
							_ => String::new(),
						};
						eprintln!("identity mismatch: {}", diff);
						cleanup_scratch();
						return (stats, Some(Found { scenario: scn.name.clone(), cfg: scn.cfg.clone(), history: h, fail: Fail::new("machinery", format!("state identity is not sound: this history was merged with another one reaching the same identity {:032x}, but event {} leads to a different state from here ({:032x}) than from the representative ({:032x})", id, ev.short(), o.identity, want)) }))
					}
				}
			}
			done += slice.len();
		}
	}
	cleanup_scratch();
	(stats, None)
}

pub fn sanitize(s: &str) -> String {
	s.chars().map(|c| if c.is_ascii_alphanumeric() { c } else { '_' }).collect()
}

/// Re-execute a complete history from scratch with the oracle after every event.
pub fn run_history(scn: &Scenario, dir: &Path, hist: &[Ev]) -> Result<(), (usize, Fail)> {
	crate::interpose::fresh_thread(|| run_history_here(scn, dir, hist))
}

fn run_history_here(scn: &Scenario, dir: &Path, hist: &[Ev]) -> Result<(), (usize, Fail)> {
	let mut ex = build(scn, dir).map_err(|f| (0, f))?;
	let mut res = Ok(());
	let timing = std::env::var("PDBMC_TIMING").is_ok();
	for (i, e) in hist.iter().enumerate() {
		let t0 = std::time::Instant::now();
		if matches!(e, Ev::Stage(St::E)) && ex.enact_would_block() {
			continue
		}
		if timing {
			let _ = ex.apply(e);
			let t1 = t0.elapsed();
			let _ = ex.check_all();
			eprintln!("event {:<12} apply {:?} check {:?}", e.short().chars().take(12).collect::<String>(), t1, t0.elapsed() - t1);
			continue
		}
		let chk = |ex: &Exec| -> Result<(), Fail> {
			for f in ex.check_all() {
				if crate::report::match_known(&scn.property, &format!("{}: {}", f.kind, f.msg)).is_none() {
					return Err(f)
				}
			}
			Ok(())
		};
		if let Err(f) = ex.apply(e).and_then(|_| chk(&ex)).and_then(|_| {
			if let Some(post) = &scn.post {
				post(&mut ex, &hist[..=i])
			} else {
				Ok(())
			}
		}) {
			res = Err((i, f));
			break
		}
	}
	match &res {
		Err((_, f)) if f.kind == "panic" => ex.abandon(),
		_ => {
			let _ = std::panic::catch_unwind(std::panic::AssertUnwindSafe(|| {
				let _ = ex.close();
			}));
		},
	}
	res
}

/// Delta debugging: drop events (and shrink transactions) while the failure kind persists.
pub fn minimise(scn: &Scenario, found: &Found) -> Found {
	let dir = workdir(&format!("{}-min", sanitize(&scn.name)));
	let mut scn2 = scn.clone();
	scn2.init = vec![];
	let mut hist = found.history.clone();
	crate::par::LIMIT_OVERRIDE.store(60, std::sync::atomic::Ordering::SeqCst);
	// every attempt runs in a forked child under the per-item watchdog: a shrunk history may make a broken
	// library loop or abort, which must not take the checker down (such an attempt counts as "not failing")
	let fails = |h: &[Ev]| -> Option<Fail> {
		let items = crate::par::par_map(1, 1, "min", |_| {
			let r = match run_history(&scn2, &dir, h) {
				Err((_, f)) if f.kind == found.fail.kind => json!({"kind": f.kind, "msg": f.msg}),
				_ => json!(null),
			};
			(serde_json::to_vec(&r).unwrap(), false)
		});
		match items.into_iter().next() {
			Some(crate::par::Item::Done(b)) => {
				let j: serde_json::Value = serde_json::from_slice(&b).ok()?;
				if j.is_null() {
					None
				} else {
					Some(Fail::new(j["kind"].as_str()?, j["msg"].as_str()?.to_string()))
				}
			},
			_ => None,
		}
	};
	let mut fail = match fails(&hist) {
		Some(f) => f,
		None => {
			let _ = std::fs::remove_dir_all(&dir);
			crate::par::LIMIT_OVERRIDE.store(0, std::sync::atomic::Ordering::SeqCst);
			return Found { scenario: found.scenario.clone(), cfg: found.cfg.clone(), history: hist, fail: found.fail.clone() }
		},
	};
	let mut progress = true;
	while progress {
		progress = false;
		let mut i = 0;
		while i < hist.len() {
			let mut h2 = hist.clone();
			h2.remove(i);
			if let Some(f) = fails(&h2) {
				hist = h2;
				fail = f;
				progress = true;
			} else {
				i += 1;
			}
		}
		// shrink transactions
		for i in 0..hist.len() {
			if let Ev::Commit(tx) = &hist[i] {
				let mut j = 0;
				let mut tx = tx.clone();
				while tx.len() > 1 && j < tx.len() {
					let mut t2 = tx.clone();
					t2.remove(j);
					let mut h2 = hist.clone();
					h2[i] = Ev::Commit(t2.clone());
					if let Some(f) = fails(&h2) {
						tx = t2;
						hist = h2;
						fail = f;
						progress = true;
					} else {
						j += 1;
					}
				}
			}
		}
	}
	let _ = std::fs::remove_dir_all(&dir);
	crate::par::LIMIT_OVERRIDE.store(0, std::sync::atomic::Ordering::SeqCst);
	Found { scenario: found.scenario.clone(), cfg: found.cfg.clone(), history: hist, fail }
}

pub fn found_to_json(property: &str, f: &Found) -> serde_json::Value {
	json!({
		"property": property,
		"engine": "seqmc",
		"scenario": f.scenario,
		"config": f.cfg.to_json(),
		"history": hist_to_json(&f.history),
		"history_short": hist_short(&f.history),
		"failure": {"kind": f.fail.kind, "message": f.fail.msg},
	})
}


pub fn encode_edge(r: &EdgeRes) -> Vec<u8> {
	let j = match r {
		EdgeRes::Skip => json!({"t": "skip"}),
		EdgeRes::Fail(f) => json!({"t": "fail", "kind": f.kind, "msg": f.msg}),
		EdgeRes::Ok(o) => json!({"t": "ok", "id": format!("{:032x}", o.identity), "parts": o.parts.iter().map(|p| format!("{:016x}", p)).collect::<Vec<_>>(), "model": o.model, "obs": o.obs,
			"ms": o.multi_stage, "pm": o.pm_steps, "rej": o.rejected, "mask": o.pm_mask, "known": o.known,
			"cp": o.crash.crash_points, "ci": o.crash.images, "cd": o.crash.distinct_images, "cr": o.crash.recoveries, "cn": o.crash.nested_recoveries,
			"fr": o.faults.runs, "fh": o.faults.faults_hit, "fe": o.faults.errors_reported, "fc": o.faults.commits_refused, "fo": o.faults.reopened, "fm": o.faults.max_ops_in_step, "fp": o.faults.power_loss_images,
			"cpl": o.crash.power_loss_images, "cmd": o.crash.max_dirty_pages, "csc": o.crash.subsets_capped, "crt": o.crash.recovered_to}),
	};
	serde_json::to_vec(&j).unwrap()
}

pub fn decode_edge(b: &[u8]) -> EdgeRes {
	let j: serde_json::Value = serde_json::from_slice(b).expect("edge result");
	match j["t"].as_str().unwrap() {
		"skip" => EdgeRes::Skip,
		"fail" => EdgeRes::Fail(Fail::new(j["kind"].as_str().unwrap(), j["msg"].as_str().unwrap().to_string())),
		_ => EdgeRes::Ok(EdgeOut {
			identity: u128::from_str_radix(j["id"].as_str().unwrap(), 16).unwrap(),
			parts: {
				let mut p = [0u64; 6];
				for (i, x) in j["parts"].as_array().map(|a| a.clone()).unwrap_or_default().iter().enumerate().take(6) {
					p[i] = u64::from_str_radix(x.as_str().unwrap_or("0"), 16).unwrap_or(0);
				}
				p
			},
			model: j["model"].as_u64().unwrap(),
			obs: j["obs"].as_u64().unwrap(),
			multi_stage: j["ms"].as_bool().unwrap(),
			pm_steps: j["pm"].as_u64().unwrap(),
			rejected: j["rej"].as_bool().unwrap(),
			pm_mask: j["mask"].as_u64().unwrap() as u8,
			known: j["known"].as_array().unwrap().iter().map(|x| x.as_str().unwrap().to_string()).collect(),
			faults: crate::faultmc::FaultStats {
				runs: j["fr"].as_u64().unwrap(),
				faults_hit: j["fh"].as_u64().unwrap(),
				errors_reported: j["fe"].as_u64().unwrap(),
				commits_refused: j["fc"].as_u64().unwrap(),
				reopened: j["fo"].as_u64().unwrap(),
				max_ops_in_step: j["fm"].as_u64().unwrap(),
				power_loss_images: j["fp"].as_u64().unwrap(),
			},
			crash: crate::crashmc::CrashStats {
				crash_points: j["cp"].as_u64().unwrap(),
				images: j["ci"].as_u64().unwrap(),
				distinct_images: j["cd"].as_u64().unwrap(),
				recoveries: j["cr"].as_u64().unwrap(),
				nested_recoveries: j["cn"].as_u64().unwrap(),
				power_loss_images: j["cpl"].as_u64().unwrap(),
				max_dirty_pages: j["cmd"].as_u64().unwrap(),
				subsets_capped: j["csc"].as_u64().unwrap(),
				recovered_to: j["crt"].as_object().unwrap().iter().map(|(k, v)| (k.clone(), v.as_u64().unwrap())).collect(),
			},
		}),
	}
}
