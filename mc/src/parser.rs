//! Independent parser of the database files (C14). Written from the on-disk format comments at the top of
//! `table.rs`, `index.rs`, `ref_count.rs` and `btree/mod.rs`; it shares no code with the implementation. The
//! size-class table and constants come from hook `verif::constants()` and are cross-checked against file names
//! and sizes.
//!
//! Works on a quiescent database (pipeline drained or handle dropped): the files then describe the whole state.

use crate::core::*;
use crate::model::*;
use std::collections::{BTreeMap, BTreeSet};
use std::path::Path;

const TIERS: usize = 256;
const INDEX_META: usize = 16 * 1024;
const CHUNK: usize = 512;

#[derive(Clone, Debug, PartialEq)]
enum SlotKind {
	Tombstone(u64),
	/// first part of a chained value: (next, compressed)
	MultiHead(u64, bool),
	MultiPart(u64),
	/// complete entry or last part: (size, compressed)
	Sized(u16, bool),
}

pub struct Table {
	pub tier: u8,
	pub entry_size: usize,
	pub data: Vec<u8>,
	pub filled: u64,
	pub last_removed: u64,
	pub multipart: bool,
}

impl Table {
	fn slot(&self, i: u64) -> &[u8] {
		let a = i as usize * self.entry_size;
		&self.data[a..a + self.entry_size]
	}
	fn kind(&self, i: u64) -> SlotKind {
		let s = self.slot(i);
		let next = u64::from_le_bytes(s[2..10].try_into().unwrap());
		match (s[0], s[1]) {
			(0xff, 0xff) => SlotKind::Tombstone(next),
			(0xfd, 0xff) if self.multipart => SlotKind::MultiHead(next, false),
			(0xfd, 0x7f) if self.multipart => SlotKind::MultiHead(next, true),
			(0xfe, 0xff) if self.multipart => SlotKind::MultiPart(next),
			_ => {
				let sz = u16::from_le_bytes([s[0], s[1]]);
				SlotKind::Sized(sz & 0x7fff, sz & 0x8000 != 0)
			},
		}
	}
}

pub struct ColumnFiles {
	pub tables: BTreeMap<u8, Table>,
	/// index files by bits: raw chunks
	pub indexes: BTreeMap<u8, Vec<u8>>,
	pub ref_counts: BTreeMap<u8, Vec<u8>>,
}

#[derive(Default, Debug)]
pub struct Report {
	pub problems: Vec<String>,
	pub slots_checked: u64,
	pub live_chains: u64,
	pub free_slots: u64,
	pub index_entries: u64,
	pub inert_index_entries: u64,
	pub btree_nodes: u64,
	pub tree_nodes: u64,
}

fn read_column(dir: &Path, col: u8, sizes: &[u16]) -> Result<ColumnFiles, String> {
	let mut c = ColumnFiles { tables: BTreeMap::new(), indexes: BTreeMap::new(), ref_counts: BTreeMap::new() };
	for e in std::fs::read_dir(dir).map_err(|e| e.to_string())?.filter_map(|e| e.ok()) {
		let name = e.file_name().to_string_lossy().into_owned();
		let data = || std::fs::read(e.path()).map_err(|e| e.to_string());
		if let Some(rest) = name.strip_prefix(&format!("table_{:02}_", col)) {
			let tier = u8::from_str_radix(rest, 16).map_err(|_| format!("bad table file name {}", name))?;
			let multipart = tier as usize == TIERS - 1;
			let entry_size = if multipart { 4096 } else { *sizes.get(tier as usize).ok_or_else(|| format!("table file {} for unknown size class", name))? as usize };
			let data = data()?;
			if data.len() < 16 {
				c.tables.insert(tier, Table { tier, entry_size, data, filled: 1, last_removed: 0, multipart });
				continue
			}
			let last_removed = u64::from_le_bytes(data[0..8].try_into().unwrap());
			let mut filled = u64::from_le_bytes(data[8..16].try_into().unwrap());
			if filled == 0 {
				filled = 1;
			}
			c.tables.insert(tier, Table { tier, entry_size, data, filled, last_removed, multipart });
		} else if let Some(rest) = name.strip_prefix(&format!("index_{:02}_", col)) {
			let bits: u8 = rest.parse().map_err(|_| format!("bad index file name {}", name))?;
			let d = data()?;
			let expect = INDEX_META + (1usize << bits) * CHUNK;
			if d.len() != expect {
				return Err(format!("{}: size {} but {} index bits need {}", name, d.len(), bits, expect))
			}
			c.indexes.insert(bits, d);
		} else if let Some(rest) = name.strip_prefix(&format!("refcount_{:02}_", col)) {
			let bits: u8 = rest.parse().map_err(|_| format!("bad ref-count file name {}", name))?;
			c.ref_counts.insert(bits, data()?);
		}
	}
	Ok(c)
}

struct Marks {
	/// (tier, slot) -> what uses it
	used: BTreeMap<(u8, u64), String>,
}

impl Marks {
	fn claim(&mut self, tier: u8, slot: u64, who: &str, problems: &mut Vec<String>) -> bool {
		if let Some(prev) = self.used.get(&(tier, slot)) {
			problems.push(format!("slot {}:{} is used twice: by {} and by {}", tier, slot, prev, who));
			return false
		}
		self.used.insert((tier, slot), who.to_string());
		true
	}
}

/// Follow a value starting at `addr`; claims its slots; returns (header-less payload, compressed).
/// `key_len`: 26 for keyed entries of hash columns, 0 otherwise; `rc`: column has the ref-count field.
fn read_value(c: &ColumnFiles, addr: u64, rc: bool, key_len: usize, who: &str, marks: &mut Marks, problems: &mut Vec<String>) -> Option<(Vec<u8>, Vec<u8>, u32, bool)> {
	let tier = (addr & 0xff) as u8;
	let mut slot = addr >> 8;
	let t = match c.tables.get(&tier) {
		Some(t) => t,
		None => {
			problems.push(format!("{} points to {}:{} but that table file does not exist", who, tier, slot));
			return None
		},
	};
	let mut payload = vec![];
	let mut key = vec![];
	let mut count = 1u32;
	let mut compressed = false;
	let mut part = 0;
	loop {
		if slot == 0 || slot >= t.filled {
			problems.push(format!("{} reaches slot {}:{} outside 1..{}", who, tier, slot, t.filled));
			return None
		}
		if !marks.claim(tier, slot, who, problems) {
			return None
		}
		let s = t.slot(slot);
		let head = 2 + if part == 0 { (if rc { 4 } else { 0 }) + key_len } else { 0 };
		let take_head = |s: &[u8], off: usize, count: &mut u32, key: &mut Vec<u8>| {
			if part == 0 {
				let mut o = off;
				if rc {
					*count = u32::from_le_bytes(s[o..o + 4].try_into().unwrap());
					o += 4;
				}
				key.extend_from_slice(&s[o..o + key_len]);
			}
		};
		match t.kind(slot) {
			SlotKind::Tombstone(_) => {
				problems.push(format!("{} reaches the freed slot {}:{}", who, tier, slot));
				return None
			},
			SlotKind::MultiHead(next, comp) => {
				if part != 0 {
					problems.push(format!("{}: chain head marker in the middle of a chain at {}:{}", who, tier, slot));
					return None
				}
				compressed = comp;
				take_head(s, 10, &mut count, &mut key);
				let start = 10 + head - 2;
				payload.extend_from_slice(&s[start..]);
				slot = next;
			},
			SlotKind::MultiPart(next) => {
				if part == 0 {
					problems.push(format!("{} starts in the middle of a chain at {}:{}", who, tier, slot));
					return None
				}
				payload.extend_from_slice(&s[10..]);
				slot = next;
			},
			SlotKind::Sized(sz, comp) => {
				if part == 0 {
					compressed = comp;
				}
				let end = 2 + sz as usize;
				if end > t.entry_size || end < head {
					problems.push(format!("{}: entry {}:{} has size {} outside its slot", who, tier, slot, sz));
					return None
				}
				take_head(s, 2, &mut count, &mut key);
				payload.extend_from_slice(&s[head..end]);
				return Some((payload, key, count, compressed))
			},
		}
		part += 1;
		if part > 100_000 {
			problems.push(format!("{}: chain does not end", who));
			return None
		}
	}
}

/// Structural check of one column against its model. `salt_zero_uniform`: keys are their own hash.
pub fn check_column(dir: &Path, col: u8, spec: &ColSpec, model: &ColModel, rep: &mut Report) {
	let cons = parity_db::verif::constants();
	let c = match read_column(dir, col, cons.sizes) {
		Ok(c) => c,
		Err(e) => {
			rep.problems.push(format!("column {}: {}", col, e));
			return
		},
	};
	let p = &mut rep.problems;
	let rc = spec.ref_counted;
	let mut marks = Marks { used: BTreeMap::new() };
	// ---- free lists: acyclic, in range, tombstones only
	let mut free: BTreeSet<(u8, u64)> = BTreeSet::new();
	for (tier, t) in c.tables.iter() {
		if (t.filled as usize) * t.entry_size > t.data.len() + t.entry_size && t.filled > 1 {
			p.push(format!("table {}:{} fill mark {} beyond the file ({} bytes)", col, tier, t.filled, t.data.len()));
			continue
		}
		let mut next = t.last_removed;
		let mut steps = 0u64;
		while next != 0 {
			if next >= t.filled {
				p.push(format!("free list of table {}:{} leaves the table: {} >= fill mark {}", col, tier, next, t.filled));
				break
			}
			if !free.insert((*tier, next)) {
				p.push(format!("free list of table {}:{} visits slot {} twice (cycle)", col, tier, next));
				break
			}
			match t.kind(next) {
				SlotKind::Tombstone(n) => next = n,
				k => {
					p.push(format!("free list of table {}:{} contains slot {} which is not a tombstone ({:?})", col, tier, next, k));
					break
				},
			}
			steps += 1;
			if steps > t.filled {
				break
			}
		}
	}
	rep.free_slots += free.len() as u64;
	// ---- reachable values
	if spec.btree {
		// header at tier 0 slot 1
		let mut live: Vec<(Vec<u8>, Vec<u8>)> = vec![];
		if let Some((h, _, _, _)) = read_value(&c, 1 << 8, rc, 0, "btree header", &mut marks, p) {
			if h.len() < 12 {
				p.push(format!("btree header entry has {} bytes", h.len()));
			} else {
				let root = u64::from_le_bytes(h[0..8].try_into().unwrap());
				let depth = u32::from_le_bytes(h[8..12].try_into().unwrap());
				if root != 0 {
					let mut leaf_depths = BTreeSet::new();
					walk_btree(&c, root, 0, rc, &mut marks, p, &mut live, &mut leaf_depths, rep_nodes(&mut rep.btree_nodes));
					if leaf_depths.len() > 1 || leaf_depths.iter().next().map_or(false, |d| *d != depth) {
						p.push(format!("btree leaves at depths {:?}, header records depth {}", leaf_depths, depth));
					}
				}
			}
		} else if c.tables.get(&0).map_or(false, |t| t.filled > 1) {
			p.push("btree header entry unreadable".into());
		}
		for w in live.windows(2) {
			if w[0].0 >= w[1].0 {
				p.push(format!("btree keys out of order: {} then {}", hex(&w[0].0), hex(&w[1].0)));
			}
		}
		match model {
			ColModel::Kv(m) => {
				let exp: Vec<(Vec<u8>, Vec<u8>)> = m.iter().map(|(k, v)| (k.clone(), v.clone())).collect();
				let keys_only = spec.compression != 0;
				let same = if keys_only { live.iter().map(|x| &x.0).eq(exp.iter().map(|x| &x.0)) } else { live == exp };
				if !same {
					p.push(format!("btree on disk holds keys {:?}, the model {:?}{}", live.iter().map(|x| crate::exec::short_hex(&x.0)).collect::<Vec<_>>(), exp.iter().map(|x| crate::exec::short_hex(&x.0)).collect::<Vec<_>>(), if keys_only { "" } else { " (or a value differs)" }));
				}
			},
			ColModel::Rc(m) => {
				let keys: Vec<&Vec<u8>> = live.iter().map(|x| &x.0).collect();
				let exp: Vec<&Vec<u8>> = m.keys().collect();
				if keys != exp {
					p.push("btree on disk and model hold different key sets".into());
				}
			},
			_ => (),
		}
		rep.live_chains += live.len() as u64;
	} else {
		// hash column: index entries -> keyed values
		let top = c.indexes.keys().max().cloned();
		let mut found: Vec<(Vec<u8>, Vec<u8>, u32)> = vec![];
		let mut seen_addr: BTreeSet<u64> = BTreeSet::new();
		for (bits, data) in c.indexes.iter() {
			let abits = *bits as u32 + 14;
			for ci in 0..(1usize << bits) {
				let chunk = &data[INDEX_META + ci * CHUNK..INDEX_META + (ci + 1) * CHUNK];
				if chunk.iter().all(|b| *b == 0) {
					continue
				}
				for e in 0..64 {
					let v = u64::from_le_bytes(chunk[e * 8..e * 8 + 8].try_into().unwrap());
					if v == 0 {
						continue
					}
					rep.index_entries += 1;
					let addr = v & ((1u64 << abits) - 1);
					let who = format!("index_{:02}_{} chunk {} entry {}", col, bits, ci, e);
					if !seen_addr.insert(addr) {
						// the same value indexed from an old and the new index during / after growth: fine
						rep.inert_index_entries += 1;
						continue
					}
					let tier = (addr & 0xff) as u8;
					let slot = addr >> 8;
					// an entry whose slot was freed or never filled is tolerated only as an inert leftover of growth
					let inert = match c.tables.get(&tier) {
						None => true,
						Some(t) => slot == 0 || slot >= t.filled || matches!(t.kind(slot), SlotKind::Tombstone(_) | SlotKind::MultiPart(_)),
					};
					if inert {
						if Some(*bits) == top && c.indexes.len() == 1 && *bits == 16 {
							p.push(format!("{} resolves to {}:{} which holds no value", who, tier, slot));
						}
						rep.inert_index_entries += 1;
						continue
					}
					let mut local = vec![];
					if let Some((payload, key, count, comp)) = read_value(&c, addr, rc, 26, &who, &mut marks, &mut local) {
						// the stored key tail must be consistent with the index position (bits 48.. of the key overlap
						// the partial key when fewer than 48 bits are implied by chunk + partial key)
						let _ = comp;
						found.push((key, payload, count));
						rep.live_chains += 1;
					}
					p.extend(local);
				}
			}
		}
		match model {
			ColModel::Kv(m) =>
				if found.len() != m.len() {
					p.push(format!("column {}: {} keyed values reachable through the index, the model holds {} keys", col, found.len(), m.len()));
				} else if spec.compression == 0 {
					let mut a: Vec<&Vec<u8>> = found.iter().map(|x| &x.1).collect();
					let mut b: Vec<&Vec<u8>> = m.values().collect();
					a.sort();
					b.sort();
					if a != b {
						p.push(format!("column {}: the values reachable through the index differ from the model's", col));
					}
				},
			ColModel::Rc(m) => {
				if found.len() != m.len() {
					p.push(format!("column {}: {} keyed values reachable through the index, the model holds {} keys", col, found.len(), m.len()));
				} else if spec.compression == 0 {
					let mut a: Vec<(&Vec<u8>, u64)> = found.iter().map(|x| (&x.1, x.2 as u64)).collect();
					let mut b: Vec<(&Vec<u8>, u64)> = m.values().map(|(v, n)| (v, *n)).collect();
					a.sort();
					b.sort();
					if a != b {
						p.push(format!("column {}: values / reference counts on disk differ from the model's", col));
					}
				}
			},
			ColModel::Tree(t) => {
				if found.len() != t.roots.len() {
					p.push(format!("column {}: {} tree roots reachable through the index, the model holds {}", col, found.len(), t.roots.len()));
				}
				// nodes: children addresses at the tail of each node's data
				let mut parents: BTreeMap<u64, u64> = BTreeMap::new();
				let mut stack: Vec<u64> = vec![];
				let children_of = |data: &[u8], who: &str, p: &mut Vec<String>| -> Vec<u64> {
					if data.is_empty() {
						p.push(format!("{}: empty node data", who));
						return vec![]
					}
					let n = data[data.len() - 1] as usize;
					if data.len() < 1 + 8 * n {
						p.push(format!("{}: node claims {} children but holds {} bytes", who, n, data.len()));
						return vec![]
					}
					let a = data.len() - 1 - 8 * n;
					(0..n).map(|i| u64::from_le_bytes(data[a + 8 * i..a + 8 * i + 8].try_into().unwrap())).collect()
				};
				for (_, payload, _) in found.iter() {
					for ch in children_of(payload, "tree root", p) {
						*parents.entry(ch).or_insert(0) += 1;
						stack.push(ch);
					}
				}
				let mut visited: BTreeSet<u64> = BTreeSet::new();
				while let Some(a) = stack.pop() {
					if !visited.insert(a) {
						continue
					}
					let who = format!("tree node {:#x}", a);
					if let Some((payload, _, _, _)) = read_value(&c, a, rc, 0, &who, &mut marks, p) {
						rep.tree_nodes += 1;
						for ch in children_of(&payload, &who, p) {
							*parents.entry(ch).or_insert(0) += 1;
							stack.push(ch);
						}
					}
				}
				if visited.len() != t.nodes.len() {
					p.push(format!("column {}: {} tree nodes reachable on disk, the model holds {}", col, visited.len(), t.nodes.len()));
				}
				// reference counts: the table lists exactly the nodes with more than one parent
				if !spec.append_only {
					let mut on_disk: BTreeMap<u64, u64> = BTreeMap::new();
					if let Some(bits) = c.ref_counts.keys().max() {
						for (b, d) in c.ref_counts.iter() {
							let _ = b;
							for e in 0..d.len() / 16 {
								let a = u64::from_le_bytes(d[e * 16..e * 16 + 8].try_into().unwrap());
								let n = u64::from_le_bytes(d[e * 16 + 8..e * 16 + 16].try_into().unwrap());
								if a != 0 {
									on_disk.insert(a, n);
								}
							}
						}
						let _ = bits;
					}
					let expect: BTreeMap<u64, u64> = parents.iter().filter(|(_, n)| **n > 1).map(|(a, n)| (*a, *n)).collect();
					if on_disk != expect {
						p.push(format!("column {}: node reference counts on disk {:?} differ from the number of referencing parents {:?}", col, on_disk, expect));
					}
				}
			},
		}
	}
	// ---- every slot below the fill mark is in exactly one live chain or on the free list exactly once
	for (tier, t) in c.tables.iter() {
		for s in 1..t.filled {
			rep.slots_checked += 1;
			let used = marks.used.contains_key(&(*tier, s));
			let is_free = free.contains(&(*tier, s));
			match (used, is_free) {
				(true, true) => p.push(format!("slot {}:{}:{} belongs to {} and is on the free list", col, tier, s, marks.used[&(*tier, s)])),
				(false, false) => p.push(format!("slot {}:{}:{} is below the fill mark ({}) but neither part of a live value nor on the free list ({:?}): leaked", col, tier, s, t.filled, t.kind(s))),
				_ => (),
			}
		}
	}
}

fn rep_nodes(n: &mut u64) -> &mut u64 {
	n
}

fn walk_btree(c: &ColumnFiles, node: u64, depth: u32, rc: bool, marks: &mut Marks, p: &mut Vec<String>, out: &mut Vec<(Vec<u8>, Vec<u8>)>, leaf_depths: &mut BTreeSet<u32>, nodes: &mut u64) {
	if depth > 64 {
		p.push("btree deeper than 64 levels (cycle?)".into());
		return
	}
	let who = format!("btree node {:#x}", node);
	let (enc, _, _, _) = match read_value(c, node, rc, 0, &who, marks, p) {
		Some(x) => x,
		None => return,
	};
	*nodes += 1;
	// child(8) [sep: value(8) keylen(1 | 255+u32) key] child ...
	let mut off = 0;
	let mut children: Vec<u64> = vec![];
	let mut seps: Vec<(u64, Vec<u8>)> = vec![];
	loop {
		if off + 8 > enc.len() {
			p.push(format!("{}: truncated child pointer", who));
			return
		}
		children.push(u64::from_le_bytes(enc[off..off + 8].try_into().unwrap()));
		off += 8;
		if children.len() == 9 || off == enc.len() {
			break
		}
		if off + 9 > enc.len() {
			p.push(format!("{}: truncated separator", who));
			return
		}
		let value = u64::from_le_bytes(enc[off..off + 8].try_into().unwrap());
		let mut klen = enc[off + 8] as usize;
		off += 9;
		if klen == 255 {
			if off + 4 > enc.len() {
				p.push(format!("{}: truncated key length", who));
				return
			}
			klen = u32::from_le_bytes(enc[off..off + 4].try_into().unwrap()) as usize;
			off += 4;
		}
		if off + klen > enc.len() {
			p.push(format!("{}: key of {} bytes does not fit", who, klen));
			return
		}
		let key = enc[off..off + klen].to_vec();
		off += klen;
		if value == 0 {
			break
		}
		seps.push((value, key));
	}
	let is_leaf = children.iter().all(|c| *c == 0);
	if is_leaf {
		leaf_depths.insert(depth);
	}
	for i in 0..=seps.len() {
		if !is_leaf {
			match children.get(i) {
				Some(ch) if *ch != 0 => walk_btree(c, *ch, depth + 1, rc, marks, p, out, leaf_depths, nodes),
				_ => p.push(format!("{}: inner node without child {}", who, i)),
			}
		}
		if let Some((value, key)) = seps.get(i) {
			let w = format!("btree value of key {}", crate::exec::short_hex(key));
			if let Some((payload, _, _, _)) = read_value(c, *value, rc, 0, &w, marks, p) {
				out.push((key.clone(), payload));
			}
		}
	}
}

/// Check every column of a quiescent database directory against the model.
pub fn check_dir(dir: &Path, cfg: &Config, model: &Model) -> Report {
	let mut rep = Report::default();
	for (i, spec) in cfg.cols.iter().enumerate() {
		check_column(dir, i as u8, spec, &model.cols[i], &mut rep);
	}
	rep
}
