//! Link-time interposition of libc entry points. Because std, memmap2 and fs2 are linked statically
//! into this binary, their calls to these symbols bind to the definitions below.
//!
//! `getrandom` is pinned so that std's `RandomState` (HashMap iteration order inside the library:
//! `CommitChangeSet.indexed`, `LogChange.local_*`) is a function of the execution alone. std draws the
//! keys once per thread and increments them for every map created on it, so every execution also runs
//! on a fresh thread (`fresh_thread`).

use std::sync::atomic::{AtomicU8, Ordering};

static RANDOM_BYTE: AtomicU8 = AtomicU8::new(0x5a);

/// Change the pinned "random" byte (the hash-order seed is an enumerated input where order matters).
pub fn set_random_seed(b: u8) {
	RANDOM_BYTE.store(b, Ordering::SeqCst);
}

#[no_mangle]
pub unsafe extern "C" fn getrandom(buf: *mut libc::c_void, len: usize, _flags: u32) -> isize {
	std::ptr::write_bytes(buf as *mut u8, RANDOM_BYTE.load(Ordering::Relaxed), len);
	len as isize
}

/// Run `f` on a fresh OS thread (fresh `RandomState` key counter) and return its result.
pub fn fresh_thread<T: Send, F: FnOnce() -> T + Send>(f: F) -> T {
	std::thread::scope(|s| {
		std::thread::Builder::new()
			.stack_size(16 << 20)
			.spawn_scoped(s, f)
			.expect("spawn")
			.join()
			.expect("execution thread panicked outside catch_unwind")
	})
}
