//! Crash-image enumeration and the recovery oracle (families 1-3 of DESIGN §3 E2).

use crate::core::{fnv, tx_short, Config, Ev, Tx};
use crate::crash::*;
use crate::exec::*;
use crate::model::Model;
use std::collections::HashSet;
use std::sync::Arc;

#[derive(Clone, Debug)]
pub struct CrashCfg {
	/// 0: op boundaries only; 1: plus a few torn variants of the next op; 2: every torn prefix
	pub torn: u8,
	/// 1: recover once; 2: also crash at every op of that recovery and recover again; ...
	pub recovery_depth: u8,
	/// enumerate power-loss images (subsets of unsynced pages, lengths of the unsynced log tail)
	pub power_loss: bool,
	/// include crash points inside the very first open_or_create
	pub creation: bool,
	/// transaction committed on the recovered database ("keeps accepting commits")
	pub suffix: Option<Tx>,
	/// cap on dirty pages whose subsets are enumerated completely
	pub max_full_subsets: usize,
	/// run the file parser (C14) on the recovered database after a clean drop
	pub parse_after: bool,
}

impl Default for CrashCfg {
	fn default() -> Self {
		CrashCfg { torn: 1, recovery_depth: 1, power_loss: false, creation: false, suffix: None, max_full_subsets: 8, parse_after: false }
	}
}

#[derive(Clone, Debug, Default)]
pub struct CrashStats {
	pub crash_points: u64,
	pub images: u64,
	pub distinct_images: u64,
	pub recoveries: u64,
	pub nested_recoveries: u64,
	pub power_loss_images: u64,
	pub max_dirty_pages: u64,
	pub subsets_capped: u64,
	pub recovered_to: std::collections::BTreeMap<String, u64>,
}

impl CrashStats {
	pub fn merge(&mut self, o: &CrashStats) {
		self.crash_points += o.crash_points;
		self.images += o.images;
		self.distinct_images += o.distinct_images;
		self.recoveries += o.recoveries;
		self.nested_recoveries += o.nested_recoveries;
		self.power_loss_images += o.power_loss_images;
		self.max_dirty_pages = self.max_dirty_pages.max(o.max_dirty_pages);
		self.subsets_capped += o.subsets_capped;
		for (k, v) in o.recovered_to.iter() {
			*self.recovered_to.entry(k.clone()).or_insert(0) += v;
		}
	}
}

pub struct Ctx<'a> {
	pub cfg: &'a Config,
	pub universe: Arc<Vec<Vec<Vec<u8>>>>,
	/// observation rendering of S_0..S_n
	pub prefix_obs: Vec<String>,
	pub prefix: &'a [Model],
	/// the accepted transactions, in commit order
	pub accepted: &'a [Tx],
	pub crash: &'a CrashCfg,
	pub property: &'a str,
}

thread_local! {
	static SEEN: std::cell::RefCell<HashSet<u64>> = std::cell::RefCell::new(HashSet::new());
}

fn open_existing(dir: &std::path::Path, cfg: &Config, universe: Arc<Vec<Vec<Vec<u8>>>>) -> Result<Exec, Fail> {
	let mut ex = Exec::detached(dir, cfg, universe);
	ex.open(true)?;
	Ok(ex)
}

/// Recover `image` and judge the result. `lo..=hi`: admissible prefix lengths.
pub fn judge_image(ctx: &Ctx, image: &Shadow, lo: usize, hi: usize, what: &str, depth: u8, stats: &mut CrashStats) -> Result<(), Fail> {
	stats.images += 1;
	let key = {
		let mut h = hash_shadow(image);
		h = fnv(&(lo as u64).to_le_bytes(), h);
		h = fnv(&(hi as u64).to_le_bytes(), h);
		h = fnv(&[depth], h);
		h = fnv(ctx.prefix_obs[hi].as_bytes(), h);
		h
	};
	if !SEEN.with(|s| s.borrow_mut().insert(key)) {
		return Ok(())
	}
	stats.distinct_images += 1;
	let dir = scratch(&format!("img{}", depth));
	materialise(image, &dir);
	let nested = depth > 1;
	if nested {
		start(&dir);
	}
	let opened = open_existing(&dir, ctx.cfg, ctx.universe.clone());
	let rec_ops = if nested { stop() } else { vec![] };
	stats.recoveries += 1;
	let mut ex = match opened {
		Ok(ex) => ex,
		Err(f) => return Err(Fail::new(&format!("crash-{}", f.kind), format!("{}: recovery failed: {}", what, f.msg))),
	};
	let r = (|| -> Result<usize, Fail> {
		let obs = ex.observe().map_err(|f| Fail::new(&format!("crash-{}", f.kind), format!("{}: reading the recovered database: {}", what, f.msg)))?;
		// several prefixes may be indistinguishable (e.g. the same transaction committed twice): prefer an
		// admissible one
		let matches: Vec<usize> = (0..ctx.prefix_obs.len()).filter(|j| ctx.prefix_obs[*j] == obs).collect();
		let j = matches.iter().rev().find(|j| **j >= lo && **j <= hi).or(matches.last()).cloned();
		let j = match j {
			Some(j) => j,
			None => {
				return Err(Fail::new("crash-not-a-prefix", format!(
					"{}: recovered state is not the state after any prefix of the {} committed transactions (a transaction is partially applied, or applied out of order)\n    recovered: {}\n    expected one of: {}",
					what, ctx.prefix_obs.len() - 1, obs, ctx.prefix_obs[lo..=hi].join(" | "))))
			},
		};
		if j < lo {
			return Err(Fail::new("crash-lost-synced", format!(
				"{}: recovered to the state after {} transactions, but {} had been synced to the log before the crash", what, j, lo)))
		}
		if j > hi {
			return Err(Fail::new("crash-future", format!("{}: recovered to the state after {} transactions, only {} were committed", what, j, hi)))
		}
		// the recovered database obeys the model from S_j on
		ex.model = ctx.prefix[j].clone();
		ex.check_entries = false;
		if let Some(f) = ex.check_all().into_iter().next() {
			if crate::report::match_known(ctx.property, &format!("{}: {}", f.kind, f.msg)).is_none() {
				return Err(Fail::new(&format!("crash-{}", f.kind), format!("{}: recovered to S_{} but: {}", what, j, f.msg)))
			}
		}
		// storage accounting of multitree columns after recovery. Several prefixes may be indistinguishable by
		// observation (insert, remove, insert again: S_1 and S_3 read the same): the accounting is judged against every
		// admissible prefix with the recovered observation, not only against the one chosen above (a first version
		// took the largest one, found no unlogged insertion behind it and reported a leak that the smaller prefix
		// explains: the claimed-entries finding).
		let cands: Vec<usize> = {
			let mut c: Vec<usize> = matches.iter().cloned().filter(|x| *x >= lo && *x <= hi).collect();
			if !c.contains(&j) {
				c.push(j);
			}
			c
		};
		for (ci, cm) in ex.model.cols.iter().enumerate() {
			if let crate::model::ColModel::Tree(t) = cm {
				if let Ok(n) = ex.db().get_num_column_value_entries(ci as u8) {
					let entries_of = |jj: usize| -> u64 {
						match &ctx.prefix[jj].cols[ci] {
							crate::model::ColModel::Tree(t) => t.total_entries(),
							_ => 0,
						}
					};
					if cands.iter().any(|jj| entries_of(*jj) == n) {
						continue
					}
					// nodes claimed (at commit time) by insertions that were not yet logged when the crash hit
					let claimed_after = |jj: usize| -> u64 {
						ctx.accepted[jj..].iter().map(|tx| tx.iter().map(|(c, op)| match op {
							crate::core::Op::InsertTree(_, node) if *c as usize == ci => node.count_nodes() as u64 - 1,
							_ => 0,
						}).sum::<u64>()).sum()
					};
					let leak = cands.iter().cloned().find(|jj| n > entries_of(*jj) && n - entries_of(*jj) <= claimed_after(*jj));
					let msg = match leak {
						Some(jj) => format!("{}: recovered to S_{}: column {} holds {} value entries, the model {}: {} entries claimed by tree insertions not yet logged at the crash are leaked", what, jj, ci, n, entries_of(jj), n - entries_of(jj)),
						None => format!("{}: recovered to S_{}: get_num_column_value_entries(c{}) = {}, model holds {} roots + {} nodes", what, j, ci, n, t.roots.len(), t.nodes.len()),
					};
					let f = Fail::new("crash-entries-mismatch", msg);
					if crate::report::match_known(ctx.property, &format!("{}: {}", f.kind, f.msg)).is_none() {
						return Err(f)
					}
					*stats.recovered_to.entry("known:claimed-entries-leak".into()).or_insert(0) += 1;
				}
			}
		}
		if let Some(tx) = &ctx.crash.suffix {
			let e = |f: Fail| Fail::new(&format!("crash-suffix-{}", f.kind), format!("{}: recovered to S_{}; then commit {}: {}", what, j, tx_short(tx), f.msg));
			ex.check_iter_rc = false;
			ex.commit(tx).map_err(e)?;
			ex.check().map_err(e)?;
			ex.drain().map_err(e)?;
			ex.check().map_err(e)?;
			ex.apply(&Ev::Reopen).map_err(e)?;
			ex.check().map_err(e)?;
		}
		if ctx.crash.parse_after {
			// C14: after recovery and a clean drop the files describe exactly the logical content
			let model = ex.model.clone();
			ex.close().map_err(|f| Fail::new(&format!("crash-{}", f.kind), format!("{}: {}", what, f.msg)))?;
			let rep = crate::parser::check_dir(&ex.dir, ctx.cfg, &model);
			if let Some(p) = rep.problems.first() {
				// entries claimed (at commit time) by tree insertions that were not yet logged when the crash hit
				// (judged against the smallest admissible prefix with the recovered observation: see the accounting above)
				let jmin = cands.iter().cloned().min().unwrap_or(j);
				let claimed: usize = ctx.accepted[jmin..].iter().map(|tx| tx.iter().map(|(_, op)| match op {
					crate::core::Op::InsertTree(_, node) => node.count_nodes() - 1,
					_ => 0,
				}).sum::<usize>()).sum();
				let only_leaks = rep.problems.iter().all(|p| p.ends_with("leaked"));
				let tag = if only_leaks && rep.problems.len() <= claimed { " [slots claimed by tree insertions not yet logged at the crash]" } else { "" };
				let f = Fail::new("crash-structure", format!("{}: recovered to S_{}; after a clean drop: {} ({} problems){}", what, j, p, rep.problems.len(), tag));
				if crate::report::match_known(ctx.property, &format!("{}: {}", f.kind, f.msg)).is_none() {
					return Err(f)
				}
				*stats.recovered_to.entry("known:claimed-entries-leak".into()).or_insert(0) += 1;
			}
		}
		Ok(j)
	})();
	match &r {
		Err(f) if f.kind.contains("panic") => ex.abandon(),
		_ => {
			let _ = std::panic::catch_unwind(std::panic::AssertUnwindSafe(|| {
				let _ = ex.close();
			}));
		},
	}
	let j = r?;
	if std::env::var("PDBMC_TRACE_IMAGES").is_ok() {
		eprintln!("image: {} -> S_{}", what, j);
	}
	*stats.recovered_to.entry(format!("S{}of{}", j, hi)).or_insert(0) += 1;
	// crash during recovery itself
	if nested {
		let mut sh = image.clone();
		let muts: Vec<usize> = rec_ops.iter().enumerate().filter(|(_, o)| o.mutates()).map(|(i, _)| i).collect();
		let mut done = 0;
		for (i, op) in rec_ops.iter().enumerate() {
			if op.mutates() {
				// crash just before this op of the recovery
				if done > 0 {
					stats.nested_recoveries += 1;
					judge_image(ctx, &sh, lo, hi, &format!("{}; then crash during recovery before its op #{} ({})", what, i, op.short()), depth - 1, stats)?;
				}
				apply(&mut sh, op);
				done += 1;
			}
		}
		let _ = muts;
	}
	Ok(())
}

/// Torn variants of `op` applied on top of `sh` (which does not yet contain `op`).
fn torn_variants(op: &Op, level: u8) -> Vec<Op> {
	let cuts = |len: usize, align: usize| -> Vec<usize> {
		if len <= align {
			return vec![]
		}
		if level >= 2 {
			(1..len).filter(|c| c % align == 0).collect()
		} else {
			let mut v = vec![align, (len / 2 / align * align).max(align), (len - 1) / align * align];
			if len > 9 {
				v.push(9 / align * align.max(1)); // right after a record header
			}
			v.retain(|c| *c > 0 && *c < len);
			v.sort();
			v.dedup();
			v
		}
	};
	match op {
		Op::Write(p, o, d) if level > 0 => cuts(d.len(), 1).into_iter().map(|c| Op::Write(p.clone(), *o, d[..c].to_vec())).collect(),
		Op::Store(p, o, d) if level > 0 => cuts(d.len(), 8).into_iter().map(|c| Op::Store(p.clone(), *o, d[..c].to_vec())).collect(),
		_ => vec![],
	}
}

/// The two shadows (all operations applied / content as of each file's last sync) after `ops`.
pub fn shadows(ops: &[Op]) -> (Shadow, Shadow) {
	let mut vol = Shadow::new();
	let mut dur = Shadow::new();
	for op in ops {
		match op {
			Op::Sync(p) =>
				if let Some(f) = vol.get(p) {
					dur.insert(p.clone(), f.clone());
				},
			Op::Msync(p, o, l) => crate::crash::msync_range(&vol, &mut dur, p, *o, *l),
			Op::Mark(_) => (),
			_ => {
				apply(&mut vol, op);
				match op {
					Op::Create(p) => {
						dur.entry(p.clone()).or_default();
					},
					Op::Trunc(p, l) => dur.entry(p.clone()).or_default().trunc(*l),
					Op::Unlink(p) => {
						dur.remove(p);
					},
					Op::Rename(a, b) =>
						if let Some(f) = dur.remove(a) {
							dur.insert(b.clone(), f);
						},
					_ => (),
				}
			},
		}
	}
	(vol, dur)
}

/// Enumerate crash points among `ops[from..]` (ops before `from` are applied unconditionally).
/// `lo_at(i)`: number of synced commits when the crash happens before op i.
pub fn enumerate(ctx: &Ctx, ops: &[Op], from: usize, lo_before: usize, lo_after_sync: usize, hi: usize, what: &str, stats: &mut CrashStats) -> Result<(), Fail> {
	let mut vol = Shadow::new();
	let mut dur = Shadow::new(); // content as of the last sync (power-loss model)
	let mut lo = lo_before;
	for (i, op) in ops.iter().enumerate() {
		if i >= from && op.mutates() {
			stats.crash_points += 1;
			let w = format!("{}, crash before op #{} ({})", what, i - from, op.short());
			judge_image(ctx, &vol, lo, hi, &w, ctx.crash.recovery_depth, stats)?;
			for t in torn_variants(op, ctx.crash.torn) {
				let mut v2 = vol.clone();
				apply(&mut v2, &t);
				judge_image(ctx, &v2, lo, hi, &format!("{}, crash in the middle of op #{} ({} torn to {})", what, i - from, op.short(), t.short()), 1, stats)?;
			}
			if ctx.crash.power_loss {
				power_loss(ctx, &vol, &dur, lo, hi, &w, stats)?;
			}
		} else if i >= from && ctx.crash.power_loss && matches!(op, Op::Sync(_) | Op::Msync(..)) {
			// the instant before a sync is where the most is at stake: everything written since the last mutating
			// operation's crash point is still volatile (a process crash here gives the image already judged)
			stats.crash_points += 1;
			let w = format!("{}, crash before op #{} ({})", what, i - from, op.short());
			power_loss(ctx, &vol, &dur, lo, hi, &w, stats)?;
		}
		match op {
			Op::Msync(p, o, l) => crate::crash::msync_range(&vol, &mut dur, p, *o, *l),
			Op::Sync(p) => {
				if let Some(f) = vol.get(p) {
					dur.insert(p.clone(), f.clone());
				}
				if p.starts_with("log") && i >= from {
					lo = lo_after_sync;
				}
			},
			Op::Mark(_) => (),
			_ => {
				apply(&mut vol, op);
				// namespace operations and sizes are durable in program order (the property's fault model)
				match op {
					Op::Create(p) => {
						dur.entry(p.clone()).or_default();
					},
					Op::Trunc(p, l) => dur.entry(p.clone()).or_default().trunc(*l),
					Op::Unlink(p) => {
						dur.remove(p);
					},
					Op::Rename(a, b) =>
						if let Some(f) = dur.remove(a) {
							dur.insert(b.clone(), f);
						},
					_ => (),
				}
			},
		}
	}
	// crash after the last op of the event
	stats.crash_points += 1;
	let w = format!("{}, crash right after the event", what);
	judge_image(ctx, &vol, lo, hi, &w, ctx.crash.recovery_depth, stats)?;
	if ctx.crash.power_loss {
		power_loss(ctx, &vol, &dur, lo, hi, &w, stats)?;
	}
	Ok(())
}

fn is_log(p: &str) -> bool {
	p.starts_with("log")
}

/// Power loss at this instant: for every mapped file the pages that differ from their last-synced content
/// either reach the disk or not (all subsets up to the cap, else all subsets with <= 2 stale or <= 2 fresh
/// pages); the unsynced tail of each log file is cut at {durable length, field boundaries, full}.
pub fn power_loss(ctx: &Ctx, vol: &Shadow, dur: &Shadow, lo: usize, hi: usize, what: &str, stats: &mut CrashStats) -> Result<(), Fail> {
	let mut dirty: Vec<(String, u64)> = vec![];
	let mut tails: Vec<(String, u64, u64)> = vec![];
	let zero = [0u8; 4096];
	for (p, f) in vol {
		if p == "lock" {
			continue
		}
		let d = dur.get(p);
		if is_log(p) || p == "metadata" {
			// appended files: content durable up to the synced length
			let dl = d.map_or(0, |d| d.len.min(f.len));
			let same_prefix = d.map_or(true, |d| d.read(0, dl as usize) == f.read(0, dl as usize));
			if f.len > dl || !same_prefix {
				tails.push((p.clone(), if same_prefix { dl } else { 0 }, f.len));
			}
			continue
		}
		let npages = (f.len + PAGE - 1) / PAGE;
		let mut pgs: Vec<u64> = f.pages.keys().cloned().collect();
		if let Some(d) = d {
			pgs.extend(d.pages.keys().cloned());
		}
		pgs.sort();
		pgs.dedup();
		for pg in pgs {
			if pg >= npages {
				continue
			}
			let a: &[u8] = f.pages.get(&pg).map(|x| &x[..]).unwrap_or(&zero);
			let b: &[u8] = d.and_then(|d| d.pages.get(&pg)).map(|x| &x[..]).unwrap_or(&zero);
			if a != b {
				dirty.push((p.clone(), pg));
			}
		}
	}
	stats.max_dirty_pages = stats.max_dirty_pages.max(dirty.len() as u64);
	if dirty.is_empty() && tails.is_empty() {
		return Ok(())
	}
	let n = dirty.len();
	let masks: Vec<u64> = if n <= ctx.crash.max_full_subsets {
		(0..(1u64 << n)).collect()
	} else {
		stats.subsets_capped += 1;
		let mut m = vec![0u64, (1u64 << n) - 1];
		for i in 0..n {
			m.push(1 << i);
			m.push(((1u64 << n) - 1) & !(1 << i));
			for j in i + 1..n {
				m.push((1 << i) | (1 << j));
				m.push(((1u64 << n) - 1) & !((1 << i) | (1 << j)));
			}
		}
		m.sort();
		m.dedup();
		m
	};
	let tail_opts: Vec<Vec<u64>> = tails
		.iter()
		.map(|(_, dl, fl)| {
			let mut v = vec![*dl, *fl];
			if fl > dl {
				let span = fl - dl;
				v.push(dl + 1);
				v.push(dl + span / 2);
				v.push(fl - 1);
				if span > 9 {
					v.push(dl + 9);
				}
				if span > 5 {
					v.push(fl - 5); // just before the record's end marker + checksum
				}
				if ctx.crash.torn >= 2 {
					v.extend(*dl..=*fl);
				}
			}
			v.retain(|x| *x >= *dl && *x <= *fl);
			v.sort();
			v.dedup();
			v
		})
		.collect();
	let mut idx = vec![0usize; tails.len()];
	loop {
		for mask in masks.iter() {
			let mut img = Shadow::new();
			for (p, f) in vol {
				if p == "lock" {
					continue
				}
				if let Some(k) = tails.iter().position(|t| &t.0 == p) {
					let mut g = f.clone();
					g.trunc(tail_opts[k][idx[k]]);
					img.insert(p.clone(), g);
				} else if is_log(p) || p == "metadata" {
					img.insert(p.clone(), f.clone());
				} else {
					let mut g = SFile { len: f.len, pages: Default::default() };
					if let Some(d) = dur.get(p) {
						g.pages = d.pages.clone();
						let keep = (f.len + PAGE - 1) / PAGE;
						g.pages.retain(|pg, _| *pg < keep);
					}
					img.insert(p.clone(), g);
				}
			}
			for (k, (p, pg)) in dirty.iter().enumerate() {
				if (mask >> k) & 1 == 1 {
					let g = img.get_mut(p).unwrap();
					match vol[p].pages.get(pg) {
						Some(d) => {
							g.pages.insert(*pg, d.clone());
						},
						None => {
							g.pages.remove(pg);
						},
					}
				}
			}
			stats.power_loss_images += 1;
			let fresh: Vec<String> = dirty.iter().enumerate().filter(|(k, _)| (mask >> k) & 1 == 1).map(|(_, (p, pg))| format!("{}:{}", p, pg)).collect();
			let stale: Vec<String> = dirty.iter().enumerate().filter(|(k, _)| (mask >> k) & 1 == 0).map(|(_, (p, pg))| format!("{}:{}", p, pg)).collect();
			let tl: Vec<String> = tails.iter().enumerate().map(|(k, t)| format!("{} cut at {} of {} (synced {})", t.0, tail_opts[k][idx[k]], t.2, t.1)).collect();
			judge_image(
				ctx,
				&img,
				lo,
				hi,
				&format!("{} with power loss: pages written [{}], pages lost [{}], log tails [{}]", what, fresh.join(","), stale.join(","), tl.join(",")),
				1,
				stats,
			)?;
		}
		let mut k = 0;
		loop {
			if k == tails.len() {
				break
			}
			idx[k] += 1;
			if idx[k] < tail_opts[k].len() {
				break
			}
			idx[k] = 0;
			k += 1;
		}
		if k == tails.len() {
			break
		}
	}
	Ok(())
}
