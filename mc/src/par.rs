//! Process-level parallel map. Worker *processes* (fork), not threads: the database maps and unmaps
//! large shared file mappings for every execution, and in one address space those calls serialise on the
//! kernel's mmap lock (measured: 16 threads ran 15x slower than 16 processes). A forked worker also
//! isolates aborts: a worker that dies is reported together with the item it was working on.

use std::io::{Read, Write};
use std::sync::atomic::{AtomicUsize, Ordering};

pub enum Item {
	Done(Vec<u8>),
	/// the worker process died (signal / abort) while working on this item
	Crashed(String),
	/// not attempted (stop was requested)
	NotRun,
}

struct Shared {
	next: AtomicUsize,
	stop: AtomicUsize,
	/// per worker: unix time at which it started its current item (0 = idle)
	started: [AtomicUsize; 64],
}

/// An item that runs longer than this (120 s quick, 300 s thorough) is killed and reported as a hang (typical items take milliseconds to a
/// few seconds).
pub static LIMIT_OVERRIDE: AtomicUsize = AtomicUsize::new(0);
/// default limit: 300 s (thorough tier), lowered to 120 s for the quick tier
pub static LIMIT_DEFAULT: AtomicUsize = AtomicUsize::new(300);

pub fn item_timeout_s() -> usize {
	let o = LIMIT_OVERRIDE.load(Ordering::SeqCst);
	if o != 0 {
		return o
	}
	std::env::var("PDBMC_ITEM_TIMEOUT").ok().and_then(|s| s.parse().ok()).unwrap_or(LIMIT_DEFAULT.load(Ordering::SeqCst))
}

fn now() -> usize {
	std::time::SystemTime::now().duration_since(std::time::UNIX_EPOCH).map(|d| d.as_secs() as usize).unwrap_or(0)
}

/// Run `f(i)` for every i in 0..n in `workers` forked processes. `f` returns (payload, stop):
/// if stop is true no further items are started.
pub fn par_map<F>(n: usize, workers: usize, tag: &str, f: F) -> Vec<Item>
where
	F: Fn(usize) -> (Vec<u8>, bool),
{
	let mut out: Vec<Item> = (0..n).map(|_| Item::NotRun).collect();
	if n == 0 {
		return out
	}
	let workers = workers.max(1).min(n).min(64);
	let shared: &Shared = unsafe {
		let p = libc::mmap(
			std::ptr::null_mut(),
			4096,
			libc::PROT_READ | libc::PROT_WRITE,
			libc::MAP_SHARED | libc::MAP_ANONYMOUS,
			-1,
			0,
		);
		assert!(p != libc::MAP_FAILED);
		&*(p as *const Shared)
	};
	shared.next.store(0, Ordering::SeqCst);
	shared.stop.store(0, Ordering::SeqCst);
	for s in shared.started.iter() {
		s.store(0, Ordering::SeqCst);
	}
	let dir = crate::search::workdir("par");
	std::fs::create_dir_all(&dir).unwrap();
	let mut pids = vec![];
	std::io::stdout().flush().ok();
	for w in 0..workers {
		let path = dir.join(format!("{}-{}.res", tag, w));
		let pid = unsafe { libc::fork() };
		assert!(pid >= 0, "fork failed");
		if pid == 0 {
			// child
			let mut file = std::io::BufWriter::new(std::fs::File::create(&path).unwrap());
			loop {
				if shared.stop.load(Ordering::SeqCst) != 0 {
					break
				}
				let i = shared.next.fetch_add(1, Ordering::SeqCst);
				if i >= n {
					break
				}
				// "start" record, flushed, so that a crash can be attributed
				file.write_all(&[1u8]).unwrap();
				file.write_all(&(i as u64).to_le_bytes()).unwrap();
				file.flush().unwrap();
				shared.started[w].store(now(), Ordering::SeqCst);
				let (payload, stop) = f(i);
				shared.started[w].store(0, Ordering::SeqCst);
				file.write_all(&[2u8]).unwrap();
				file.write_all(&(i as u64).to_le_bytes()).unwrap();
				file.write_all(&(payload.len() as u64).to_le_bytes()).unwrap();
				file.write_all(&payload).unwrap();
				file.flush().unwrap();
				if stop {
					shared.stop.store(1, Ordering::SeqCst);
					break
				}
			}
			file.flush().unwrap();
			drop(file);
			unsafe { libc::_exit(0) };
		}
		pids.push((pid, path, w));
	}
	// wait, killing workers whose current item exceeds the time limit
	let limit = item_timeout_s();
	let mut done: Vec<(i32, std::path::PathBuf, i32, bool)> = vec![];
	let mut live = pids.clone();
	while !live.is_empty() {
		let mut still = vec![];
		for (pid, path, w) in live {
			let mut status: i32 = 0;
			let r = unsafe { libc::waitpid(pid, &mut status, libc::WNOHANG) };
			if r == pid {
				done.push((pid, path, status, false));
				continue
			}
			let st = shared.started[w].load(Ordering::SeqCst);
			if st != 0 && now() > st + limit {
				unsafe {
					libc::kill(pid, libc::SIGKILL);
					libc::waitpid(pid, &mut status, 0);
				}
				done.push((pid, path, status, true));
				continue
			}
			still.push((pid, path, w));
		}
		live = still;
		if !live.is_empty() {
			std::thread::sleep(std::time::Duration::from_millis(20));
		}
	}
	for (_pid, path, status, timed_out) in done {
		let clean = libc::WIFEXITED(status) && libc::WEXITSTATUS(status) == 0;
		let mut data = vec![];
		if let Ok(mut f) = std::fs::File::open(&path) {
			f.read_to_end(&mut data).ok();
		}
		let _ = std::fs::remove_file(&path);
		let mut pos = 0;
		let mut started: Option<usize> = None;
		while pos < data.len() {
			let t = data[pos];
			pos += 1;
			if pos + 8 > data.len() {
				break
			}
			let i = u64::from_le_bytes(data[pos..pos + 8].try_into().unwrap()) as usize;
			pos += 8;
			if t == 1 {
				started = Some(i);
			} else {
				if pos + 8 > data.len() {
					break
				}
				let len = u64::from_le_bytes(data[pos..pos + 8].try_into().unwrap()) as usize;
				pos += 8;
				if pos + len > data.len() {
					break
				}
				out[i] = Item::Done(data[pos..pos + len].to_vec());
				pos += len;
				started = None;
			}
		}
		if !clean {
			let why = if timed_out {
				format!("the execution did not finish within {} s (hang or livelock); worker killed", limit)
			} else if libc::WIFSIGNALED(status) {
				format!("worker killed by signal {}", libc::WTERMSIG(status))
			} else {
				format!("worker exited with status {}", libc::WEXITSTATUS(status))
			};
			if let Some(i) = started {
				out[i] = Item::Crashed(why);
			} else {
				crate::report::machinery_error(&format!("worker process failed outside an item: {}", why));
			}
		}
	}
	unsafe { libc::munmap(shared as *const Shared as *mut libc::c_void, 4096) };
	out
}
