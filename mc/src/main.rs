mod core;
mod crash;
mod crashmc;
mod exec;
mod faultmc;
mod interpose;
mod model;
mod observe;
mod par;
mod parser;
mod pm;
mod props;
mod report;
mod search;
mod tracejudge;
mod trees;

fn main() {
	let args: Vec<String> = std::env::args().collect();
	if args.len() < 2 {
		eprintln!("usage: pdbmc <property> <quick|thorough> | pdbmc replay <file>");
		std::process::exit(2);
	}
	// quiet panics from the library under test: they are caught and reported as findings
	if std::env::var("PDBMC_PANIC_TRACE").is_err() {
		std::panic::set_hook(Box::new(|_| {}));
	}
	match args[1].as_str() {
		"replay" => props::replay(&args[2]),
		"judge-traces" => tracejudge::judge_dir(&args[2]),
		p => {
			let tier = args.get(2).map(|s| s.as_str()).unwrap_or("quick");
			if tier != "thorough" {
				par::LIMIT_DEFAULT.store(120, std::sync::atomic::Ordering::SeqCst);
			} else {
				search::MERGE_CHECK_DEFAULT.store(true, std::sync::atomic::Ordering::SeqCst);
			}
			props::run(p, tier)
		},
	}
}
