//! E2 `crashmc`: recording of every file mutation of an execution (libc interposition + mmap-store hook H1),
//! a shadow file system kept in lock-step, and enumeration of crash images.

use std::collections::{BTreeMap, HashMap};
use std::ffi::CStr;
use std::path::{Path, PathBuf};
use std::sync::atomic::{AtomicBool, Ordering::SeqCst};
use std::sync::Mutex;

#[derive(Clone, Debug, PartialEq)]
pub enum Op {
	Create(String),
	Trunc(String, u64),
	/// write(2) at an offset
	Write(String, u64, Vec<u8>),
	/// store into a shared file mapping
	Store(String, u64, Vec<u8>),
	Unlink(String),
	Rename(String, String),
	/// fdatasync / fsync of a file
	Sync(String),
	/// msync of a mapping of the file
	/// (file, offset, length): the pages overlapping the range become durable
	Msync(String, u64, u64),
	Mark(String),
}

impl Op {
	pub fn mutates(&self) -> bool {
		!matches!(self, Op::Sync(_) | Op::Msync(..) | Op::Mark(_))
	}
	pub fn short(&self) -> String {
		match self {
			Op::Create(p) => format!("create {}", p),
			Op::Trunc(p, l) => format!("truncate {} to {}", p, l),
			Op::Write(p, o, d) => format!("write {} @{} +{}", p, o, d.len()),
			Op::Store(p, o, d) => format!("store {} @{} +{}", p, o, d.len()),
			Op::Unlink(p) => format!("unlink {}", p),
			Op::Rename(a, b) => format!("rename {} -> {}", a, b),
			Op::Sync(p) => format!("fsync {}", p),
			Op::Msync(p, o, l) => format!("msync {} [{}, +{})", p, o, l),
			Op::Mark(m) => format!("mark {}", m),
		}
	}
}

// ------------------------------------------------------------------ recorder

static REC: AtomicBool = AtomicBool::new(false);
static OPS: Mutex<Vec<Op>> = Mutex::new(Vec::new());
static FDS: Mutex<Option<HashMap<i32, String>>> = Mutex::new(None);
static MAPS: Mutex<Vec<(usize, usize, String, u64)>> = Mutex::new(Vec::new());
static PREFIX: Mutex<String> = Mutex::new(String::new());
/// syscall-level fault injection: fail (EIO) every interposed mutating call from the n-th on
pub static FAULT_AFTER: std::sync::atomic::AtomicI64 = std::sync::atomic::AtomicI64::new(-1);
pub static CALLS: std::sync::atomic::AtomicI64 = std::sync::atomic::AtomicI64::new(0);

macro_rules! real {
	($name:literal, $ty:ty) => {{
		static P: std::sync::atomic::AtomicUsize = std::sync::atomic::AtomicUsize::new(0);
		let mut p = P.load(std::sync::atomic::Ordering::Relaxed);
		if p == 0 {
			p = libc::dlsym(libc::RTLD_NEXT, concat!($name, "\0").as_ptr() as *const _) as usize;
			P.store(p, std::sync::atomic::Ordering::Relaxed);
		}
		std::mem::transmute::<usize, $ty>(p)
	}};
}

/// Callback invoked (with recording paused) right after every recorded operation.
pub static ON_OP: Mutex<Option<Box<dyn FnMut(usize, &Op) + Send>>> = Mutex::new(None);

fn rec(op: Op) {
	if REC.swap(false, SeqCst) {
		let n = {
			let mut ops = OPS.lock().unwrap();
			ops.push(op.clone());
			ops.len()
		};
		if let Ok(mut cb) = ON_OP.try_lock() {
			if let Some(f) = cb.as_mut() {
				f(n, &op);
			}
		}
		REC.store(true, SeqCst);
	}
}

/// name relative to the recorded directory, if inside it
fn rel(path: &str) -> Option<String> {
	let pre = PREFIX.lock().unwrap();
	if pre.is_empty() {
		return None
	}
	path.strip_prefix(pre.as_str()).map(|s| s.trim_start_matches('/').to_string())
}

fn fdpath(fd: i32) -> Option<String> {
	if !REC.load(SeqCst) {
		return None
	}
	REC.store(false, SeqCst);
	let r = FDS.lock().unwrap().as_ref().and_then(|m| m.get(&fd).cloned());
	REC.store(true, SeqCst);
	r
}

/// Should this mutating call fail (fault injection)? Counts calls on recorded files.
unsafe fn inject() -> bool {
	let n = CALLS.fetch_add(1, SeqCst);
	let after = FAULT_AFTER.load(SeqCst);
	if after >= 0 && n >= after {
		*libc::__errno_location() = libc::EIO;
		return true
	}
	false
}

#[no_mangle]
pub unsafe extern "C" fn open64(p: *const libc::c_char, flags: i32, mode: libc::mode_t) -> i32 {
	let f = real!("open64", unsafe extern "C" fn(*const libc::c_char, i32, libc::mode_t) -> i32);
	if !REC.load(SeqCst) {
		return f(p, flags, mode)
	}
	let path = CStr::from_ptr(p).to_string_lossy().into_owned();
	let name = match rel(&path) {
		Some(n) => n,
		None => return f(p, flags, mode),
	};
	let existed = libc::access(p, libc::F_OK) == 0;
	let creating = !existed && (flags & libc::O_CREAT) != 0;
	if (creating || (flags & libc::O_TRUNC) != 0) && name != "lock" && inject() {
		return -1
	}
	let r = f(p, flags, mode);
	if r >= 0 {
		REC.store(false, SeqCst);
		FDS.lock().unwrap().get_or_insert_with(HashMap::new).insert(r, name.clone());
		REC.store(true, SeqCst);
		if name != "lock" {
			if creating {
				rec(Op::Create(name.clone()));
			}
			if existed && (flags & libc::O_TRUNC) != 0 {
				rec(Op::Trunc(name, 0));
			}
		}
	}
	r
}

#[no_mangle]
pub unsafe extern "C" fn close(fd: i32) -> i32 {
	if REC.load(SeqCst) {
		REC.store(false, SeqCst);
		if let Some(m) = FDS.lock().unwrap().as_mut() {
			m.remove(&fd);
		}
		REC.store(true, SeqCst);
	}
	real!("close", unsafe extern "C" fn(i32) -> i32)(fd)
}

#[no_mangle]
pub unsafe extern "C" fn write(fd: i32, buf: *const libc::c_void, n: usize) -> isize {
	let f = real!("write", unsafe extern "C" fn(i32, *const libc::c_void, usize) -> isize);
	if let Some(p) = fdpath(fd) {
		if inject() {
			return -1
		}
		let off = libc::lseek(fd, 0, libc::SEEK_CUR) as u64;
		let r = f(fd, buf, n);
		if r > 0 {
			rec(Op::Write(p, off, std::slice::from_raw_parts(buf as *const u8, r as usize).to_vec()));
		}
		return r
	}
	f(fd, buf, n)
}

#[no_mangle]
pub unsafe extern "C" fn ftruncate64(fd: i32, len: i64) -> i32 {
	let f = real!("ftruncate64", unsafe extern "C" fn(i32, i64) -> i32);
	if let Some(p) = fdpath(fd) {
		if inject() {
			return -1
		}
		let r = f(fd, len);
		if r == 0 {
			rec(Op::Trunc(p, len as u64));
		}
		return r
	}
	f(fd, len)
}

#[no_mangle]
pub unsafe extern "C" fn fdatasync(fd: i32) -> i32 {
	let f = real!("fdatasync", unsafe extern "C" fn(i32) -> i32);
	if let Some(p) = fdpath(fd) {
		if inject() {
			return -1
		}
		let r = f(fd);
		if r == 0 {
			rec(Op::Sync(p));
		}
		return r
	}
	f(fd)
}

#[no_mangle]
pub unsafe extern "C" fn fsync(fd: i32) -> i32 {
	let f = real!("fsync", unsafe extern "C" fn(i32) -> i32);
	if let Some(p) = fdpath(fd) {
		if inject() {
			return -1
		}
		let r = f(fd);
		if r == 0 {
			rec(Op::Sync(p));
		}
		return r
	}
	f(fd)
}

#[no_mangle]
pub unsafe extern "C" fn mmap(a: *mut libc::c_void, l: usize, p: i32, fl: i32, fd: i32, o: i64) -> *mut libc::c_void {
	let f = real!("mmap", unsafe extern "C" fn(*mut libc::c_void, usize, i32, i32, i32, i64) -> *mut libc::c_void);
	if fd >= 0 {
		if let Some(path) = fdpath(fd) {
			if inject() {
				return libc::MAP_FAILED
			}
			let r = f(a, l, p, fl, fd, o);
			if r != libc::MAP_FAILED {
				REC.store(false, SeqCst);
				MAPS.lock().unwrap().push((r as usize, l, path, o as u64));
				REC.store(true, SeqCst);
			}
			return r
		}
	}
	f(a, l, p, fl, fd, o)
}

#[no_mangle]
pub unsafe extern "C" fn msync(a: *mut libc::c_void, l: usize, fl: i32) -> i32 {
	let f = real!("msync", unsafe extern "C" fn(*mut libc::c_void, usize, i32) -> i32);
	if REC.load(SeqCst) {
		REC.store(false, SeqCst);
		let m = MAPS.lock().unwrap().iter().rev().find(|(s, n, _, _)| (a as usize) >= *s && (a as usize) < *s + *n).map(|x| (x.2.clone(), x.3 + (a as usize - x.0) as u64));
		REC.store(true, SeqCst);
		if let Some((p, off)) = m {
			if inject() {
				return -1
			}
			let r = f(a, l, fl);
			if r == 0 {
				rec(Op::Msync(p, off, l as u64));
			}
			return r
		}
	}
	f(a, l, fl)
}

#[no_mangle]
pub unsafe extern "C" fn munmap(a: *mut libc::c_void, l: usize) -> i32 {
	if REC.load(SeqCst) {
		REC.store(false, SeqCst);
		MAPS.lock().unwrap().retain(|(s, _, _, _)| *s != a as usize);
		REC.store(true, SeqCst);
	}
	real!("munmap", unsafe extern "C" fn(*mut libc::c_void, usize) -> i32)(a, l)
}

#[no_mangle]
pub unsafe extern "C" fn unlink(p: *const libc::c_char) -> i32 {
	let f = real!("unlink", unsafe extern "C" fn(*const libc::c_char) -> i32);
	if REC.load(SeqCst) {
		let path = CStr::from_ptr(p).to_string_lossy().into_owned();
		if let Some(name) = rel(&path) {
			if inject() {
				return -1
			}
			let r = f(p);
			if r == 0 {
				rec(Op::Unlink(name));
			}
			return r
		}
	}
	f(p)
}

#[no_mangle]
pub unsafe extern "C" fn rename(a: *const libc::c_char, b: *const libc::c_char) -> i32 {
	let f = real!("rename", unsafe extern "C" fn(*const libc::c_char, *const libc::c_char) -> i32);
	if REC.load(SeqCst) {
		let pa = CStr::from_ptr(a).to_string_lossy().into_owned();
		let pb = CStr::from_ptr(b).to_string_lossy().into_owned();
		if let (Some(na), Some(nb)) = (rel(&pa), rel(&pb)) {
			if inject() {
				return -1
			}
			let r = f(a, b);
			if r == 0 {
				rec(Op::Rename(na, nb));
			}
			return r
		}
	}
	f(a, b)
}

fn store_cb(path: &Path, off: u64, data: &[u8]) {
	if REC.load(SeqCst) {
		if let Some(name) = rel(&path.to_string_lossy()) {
			rec(Op::Store(name, off, data.to_vec()));
		}
	}
}

/// Begin recording mutations of files under `dir`.
pub fn start(dir: &Path) {
	*PREFIX.lock().unwrap() = dir.to_string_lossy().into_owned();
	OPS.lock().unwrap().clear();
	*FDS.lock().unwrap() = Some(HashMap::new());
	MAPS.lock().unwrap().clear();
	CALLS.store(0, SeqCst);
	parity_db::verif::set_store_cb(Some(store_cb));
	REC.store(true, SeqCst);
}

pub fn mark(label: &str) {
	rec(Op::Mark(label.to_string()));
}

pub fn ops_len() -> usize {
	REC.store(false, SeqCst);
	let n = OPS.lock().unwrap().len();
	REC.store(true, SeqCst);
	n
}

/// Copy of the operations recorded so far (recording must be paused by the caller).
pub fn stop_peek() -> Vec<Op> {
	OPS.lock().unwrap().clone()
}

pub fn stop() -> Vec<Op> {
	REC.store(false, SeqCst);
	parity_db::verif::set_store_cb(None);
	FAULT_AFTER.store(-1, SeqCst);
	*PREFIX.lock().unwrap() = String::new();
	std::mem::take(&mut *OPS.lock().unwrap())
}

pub fn pause() -> bool {
	REC.swap(false, SeqCst)
}
pub fn resume(was: bool) {
	REC.store(was, SeqCst);
}

// ------------------------------------------------------------------ shadow file system

pub const PAGE: u64 = 4096;

#[derive(Clone, Default, Debug, PartialEq)]
pub struct SFile {
	pub len: u64,
	pub pages: BTreeMap<u64, Box<[u8; 4096]>>,
}

impl SFile {
	pub fn write(&mut self, off: u64, data: &[u8], extend: bool) {
		if extend && off + data.len() as u64 > self.len {
			self.len = off + data.len() as u64;
		}
		let mut o = off;
		let mut d = data;
		while !d.is_empty() {
			let pg = o / PAGE;
			let po = (o % PAGE) as usize;
			let n = d.len().min(4096 - po);
			self.pages.entry(pg).or_insert_with(|| Box::new([0u8; 4096]))[po..po + n].copy_from_slice(&d[..n]);
			o += n as u64;
			d = &d[n..];
		}
	}
	pub fn trunc(&mut self, len: u64) {
		if len < self.len {
			let keep = (len + PAGE - 1) / PAGE;
			self.pages.retain(|p, _| *p < keep);
			if len % PAGE != 0 {
				if let Some(p) = self.pages.get_mut(&(len / PAGE)) {
					for b in &mut p[(len % PAGE) as usize..] {
						*b = 0;
					}
				}
			}
		}
		self.len = len;
	}
	pub fn read(&self, off: u64, n: usize) -> Vec<u8> {
		let mut out = vec![0u8; n];
		for i in 0..n {
			let o = off + i as u64;
			if o >= self.len {
				break
			}
			if let Some(p) = self.pages.get(&(o / PAGE)) {
				out[i] = p[(o % PAGE) as usize];
			}
		}
		out
	}
}

pub type Shadow = BTreeMap<String, SFile>;

/// msync of [off, off+len): every page overlapping the range takes its current (volatile) content in `dur`
pub fn msync_range(vol: &Shadow, dur: &mut Shadow, p: &str, off: u64, len: u64) {
	if let Some(f) = vol.get(p) {
		let d = dur.entry(p.to_string()).or_default();
		d.len = f.len;
		let first = off / PAGE;
		let last = (off + len + PAGE - 1) / PAGE;
		let stale: Vec<u64> = d.pages.range(first..last).map(|(k, _)| *k).collect();
		for k in stale {
			d.pages.remove(&k);
		}
		for (k, pg) in f.pages.range(first..last) {
			d.pages.insert(*k, pg.clone());
		}
	}
}

pub fn apply(sh: &mut Shadow, op: &Op) {
	match op {
		Op::Create(p) => {
			sh.entry(p.clone()).or_default();
		},
		Op::Trunc(p, l) => sh.entry(p.clone()).or_default().trunc(*l),
		Op::Write(p, o, d) => sh.entry(p.clone()).or_default().write(*o, d, true),
		Op::Store(p, o, d) => sh.entry(p.clone()).or_default().write(*o, d, false),
		Op::Unlink(p) => {
			sh.remove(p);
		},
		Op::Rename(a, b) =>
			if let Some(f) = sh.remove(a) {
				sh.insert(b.clone(), f);
			},
		Op::Sync(_) | Op::Msync(..) | Op::Mark(_) => (),
	}
}

pub fn hash_shadow(sh: &Shadow) -> u64 {
	let mut h: u64 = 0xcbf29ce484222325;
	for (p, f) in sh {
		if p == "lock" {
			continue
		}
		h = crate::core::fnv(p.as_bytes(), h);
		h = crate::core::fnv(&f.len.to_le_bytes(), h);
		for (pg, d) in &f.pages {
			if pg * PAGE < f.len && d.iter().any(|b| *b != 0) {
				h = crate::core::fnv(&pg.to_le_bytes(), h);
				let n = ((f.len - pg * PAGE) as usize).min(4096);
				h = crate::core::fnv(&d[..n], h);
				// bytes past the file length inside the last page are ignored
			}
		}
	}
	h
}

/// Write the shadow into `dir` as real files (sparse: only non-zero pages are written).
pub fn materialise(sh: &Shadow, dir: &Path) {
	use std::os::unix::fs::FileExt;
	let _ = std::fs::remove_dir_all(dir);
	std::fs::create_dir_all(dir).unwrap();
	for (p, f) in sh {
		if p == "lock" || p.contains('/') {
			continue
		}
		let file = std::fs::File::create(dir.join(p)).unwrap();
		file.set_len(f.len).unwrap();
		for (pg, data) in &f.pages {
			let o = pg * PAGE;
			if o < f.len && data.iter().any(|b| *b != 0) {
				let n = ((f.len - o) as usize).min(4096);
				file.write_all_at(&data[..n], o).unwrap();
			}
		}
	}
}

/// Conformance of the shadow to reality: compare with the real files byte for byte.
pub fn compare_with_dir(sh: &Shadow, dir: &Path) -> Result<(), String> {
	let was = pause();
	let r = (|| {
		let mut names: Vec<String> = std::fs::read_dir(dir)
			.map_err(|e| e.to_string())?
			.filter_map(|e| e.ok())
			.filter(|e| e.file_type().map(|t| t.is_file()).unwrap_or(false))
			.map(|e| e.file_name().to_string_lossy().into_owned())
			.filter(|n| n != "lock")
			.collect();
		names.sort();
		let mine: Vec<String> = sh.keys().filter(|n| *n != "lock").cloned().collect();
		if names != mine {
			return Err(format!("file set differs: real {:?}, shadow {:?}", names, mine))
		}
		for n in names {
			let real = std::fs::read(dir.join(&n)).map_err(|e| e.to_string())?;
			let f = &sh[&n];
			if real.len() as u64 != f.len {
				return Err(format!("{}: real length {}, shadow length {}", n, real.len(), f.len))
			}
			let mut pg = 0u64;
			while pg * PAGE < f.len {
				let a = (pg * PAGE) as usize;
				let b = (a + 4096).min(real.len());
				let zero = [0u8; 4096];
				let s: &[u8] = f.pages.get(&pg).map(|p| &p[..b - a]).unwrap_or(&zero[..b - a]);
				if &real[a..b] != s {
					let i = real[a..b].iter().zip(s.iter()).position(|(x, y)| x != y).unwrap();
					return Err(format!("{}: byte {} differs (real {:#x}, shadow {:#x})", n, a + i, real[a + i], s[i]))
				}
				pg += 1;
			}
		}
		Ok(())
	})();
	resume(was);
	r
}

pub fn scratch(tag: &str) -> PathBuf {
	crate::search::workdir(&format!("w{}-{}", std::process::id(), tag))
}

// ------------------------------------------------------------------ trace files (shared with the loom engine)

fn put_str(out: &mut Vec<u8>, s: &str) {
	out.extend_from_slice(&(s.len() as u32).to_le_bytes());
	out.extend_from_slice(s.as_bytes());
}

pub fn ops_to_bytes(ops: &[Op]) -> Vec<u8> {
	let mut out = vec![];
	for op in ops {
		match op {
			Op::Create(p) => {
				out.push(1);
				put_str(&mut out, p);
			},
			Op::Trunc(p, l) => {
				out.push(2);
				put_str(&mut out, p);
				out.extend_from_slice(&l.to_le_bytes());
			},
			Op::Write(p, o, d) | Op::Store(p, o, d) => {
				out.push(if matches!(op, Op::Write(..)) { 3 } else { 4 });
				put_str(&mut out, p);
				out.extend_from_slice(&o.to_le_bytes());
				out.extend_from_slice(&(d.len() as u32).to_le_bytes());
				out.extend_from_slice(d);
			},
			Op::Unlink(p) => {
				out.push(5);
				put_str(&mut out, p);
			},
			Op::Rename(a, b) => {
				out.push(6);
				put_str(&mut out, a);
				put_str(&mut out, b);
			},
			Op::Sync(p) => {
				out.push(7);
				put_str(&mut out, p);
			},
			Op::Msync(p, o, l) => {
				out.push(8);
				put_str(&mut out, p);
				out.extend_from_slice(&o.to_le_bytes());
				out.extend_from_slice(&l.to_le_bytes());
			},
			Op::Mark(m) => {
				out.push(9);
				put_str(&mut out, m);
			},
		}
	}
	out
}

pub fn ops_from_bytes(b: &[u8]) -> Option<Vec<Op>> {
	let mut pos = 0usize;
	let mut ops = vec![];
	fn take<'a>(b: &'a [u8], pos: &mut usize, n: usize) -> Option<&'a [u8]> {
		if *pos + n > b.len() {
			return None
		}
		let s = &b[*pos..*pos + n];
		*pos += n;
		Some(s)
	}
	fn u32_(b: &[u8], pos: &mut usize) -> Option<u32> {
		Some(u32::from_le_bytes(take(b, pos, 4)?.try_into().ok()?))
	}
	fn u64_(b: &[u8], pos: &mut usize) -> Option<u64> {
		Some(u64::from_le_bytes(take(b, pos, 8)?.try_into().ok()?))
	}
	fn str_(b: &[u8], pos: &mut usize) -> Option<String> {
		let n = u32_(b, pos)? as usize;
		String::from_utf8(take(b, pos, n)?.to_vec()).ok()
	}
	while pos < b.len() {
		let t = b[pos];
		pos += 1;
		ops.push(match t {
			1 => Op::Create(str_(b, &mut pos)?),
			2 => Op::Trunc(str_(b, &mut pos)?, u64_(b, &mut pos)?),
			3 | 4 => {
				let p = str_(b, &mut pos)?;
				let o = u64_(b, &mut pos)?;
				let n = u32_(b, &mut pos)? as usize;
				let d = take(b, &mut pos, n)?.to_vec();
				if t == 3 {
					Op::Write(p, o, d)
				} else {
					Op::Store(p, o, d)
				}
			},
			5 => Op::Unlink(str_(b, &mut pos)?),
			6 => Op::Rename(str_(b, &mut pos)?, str_(b, &mut pos)?),
			7 => Op::Sync(str_(b, &mut pos)?),
			8 => Op::Msync(str_(b, &mut pos)?, u64_(b, &mut pos)?, u64_(b, &mut pos)?),
			9 => Op::Mark(str_(b, &mut pos)?),
			_ => return None,
		});
	}
	Some(ops)
}
