//! Judgement of I/O traces recorded by the loom engine (one trace = the file operations of one complete
//! schedule of real worker threads, in the order they happened): every operation boundary of the threaded phase is a
//! crash point, power-loss images of that instant are enumerated and recovered exactly as in crashmc. The loom
//! build of the crate cannot open a database outside a loom model, so recovery runs here, in the plain build.

use crate::core::*;
use crate::crash::{ops_from_bytes, Op};
use crate::crashmc::{CrashCfg, CrashStats, Ctx};
use crate::exec::Fail;
use crate::model::Model;
use crate::par::{par_map, Item};
use serde_json::json;

fn unhex(s: &str) -> Vec<u8> {
	(0..s.len() / 2).map(|i| u8::from_str_radix(&s[2 * i..2 * i + 2], 16).unwrap_or(0)).collect()
}

pub struct Trace {
	pub cfg: Config,
	pub txs: Vec<Tx>,
	pub ops: Vec<Op>,
	pub from: usize,
	pub lo_before: usize,
	pub lo_after_sync: usize,
	pub hi: usize,
	pub what: String,
	pub property: String,
}

pub fn parse(j: &serde_json::Value) -> Result<Trace, String> {
	let mut spec = ColSpec::hash();
	spec.btree = j["btree"].as_bool().unwrap_or(false);
	let mut cfg = Config::new(vec![spec]);
	cfg.salt = j["salt"].as_u64().ok_or("salt")? as u8;
	let mut txs = vec![];
	for t in j["txs"].as_array().ok_or("txs")? {
		let mut tx: Tx = vec![];
		for o in t.as_array().ok_or("tx")? {
			let c = o[0].as_u64().ok_or("col")? as u8;
			let k = B::Hex(unhex(o[1].as_str().ok_or("key")?));
			tx.push((c, match o[2].as_str() {
				Some(v) => Op_::Set(k, B::Hex(unhex(v))),
				None => Op_::Del(k),
			}));
		}
		txs.push(tx);
	}
	let ops = ops_from_bytes(&unhex(j["ops_hex"].as_str().ok_or("ops_hex")?)).ok_or("malformed operation list")?;
	Ok(Trace {
		cfg,
		txs,
		ops,
		from: j["from"].as_u64().ok_or("from")? as usize,
		lo_before: j["lo_before"].as_u64().ok_or("lo_before")? as usize,
		lo_after_sync: j["lo_after_sync"].as_u64().ok_or("lo_after_sync")? as usize,
		hi: j["hi"].as_u64().ok_or("hi")? as usize,
		what: format!("scenario {} preemption bound {} schedule #{}", j["scenario"].as_str().unwrap_or("?"), j["preemption_bound"], j["schedule"]),
		property: j["property"].as_str().unwrap_or("C12").to_string(),
	})
}

use crate::core::Op as Op_;

pub fn judge(t: &Trace, stats: &mut CrashStats) -> Result<(), Fail> {
	let universe = crate::search::universe_of(&t.cfg, &t.txs, &[]);
	let mut models = vec![Model::new(&t.cfg)];
	for tx in &t.txs {
		let mut m = models.last().unwrap().clone();
		m.apply(tx).map_err(|e| Fail::new("machinery", format!("trace transaction rejected by the model: {}", e)))?;
		models.push(m);
	}
	let prefix_obs: Vec<String> = models.iter().map(|m| crate::observe::observe_model(m, &universe)).collect();
	let cc = CrashCfg { torn: 0, recovery_depth: 1, power_loss: true, max_full_subsets: 8, ..Default::default() };
	let ctx = Ctx { cfg: &t.cfg, universe, prefix_obs, prefix: &models, accepted: &t.txs, crash: &cc, property: &t.property };
	if t.hi >= models.len() || t.from > t.ops.len() {
		return Err(Fail::new("machinery", "trace header out of range".into()))
	}
	crate::crashmc::enumerate(&ctx, &t.ops, t.from, t.lo_before, t.lo_after_sync, t.hi, &t.what, stats)
}

/// `pdbmc judge-traces <dir>`: judge every *.json trace in the directory; prints one JSON line.
pub fn judge_dir(dir: &str) -> ! {
	let mut files: Vec<std::path::PathBuf> = std::fs::read_dir(dir)
		.map(|r| r.filter_map(|e| e.ok()).map(|e| e.path()).filter(|p| p.extension().map_or(false, |x| x == "json")).collect())
		.unwrap_or_default();
	files.sort();
	let items = par_map(files.len(), crate::search::nthreads(), "tj", |i| {
		let r = crate::interpose::fresh_thread(|| {
			let body = std::fs::read_to_string(&files[i]).unwrap_or_default();
			let j: serde_json::Value = match serde_json::from_str(&body) {
				Ok(j) => j,
				Err(e) => return json!({"machinery": format!("{}: {}", files[i].display(), e)}),
			};
			let t = match parse(&j) {
				Ok(t) => t,
				Err(e) => return json!({"machinery": format!("{}: bad trace: {}", files[i].display(), e)}),
			};
			let mut st = CrashStats::default();
			let r = judge(&t, &mut st);
			json!({"ops": t.ops.len() - t.from, "crash_points": st.crash_points, "images": st.images, "distinct": st.distinct_images, "power_loss": st.power_loss_images, "max_dirty": st.max_dirty_pages,
				"capped": st.subsets_capped, "recovered_to": st.recovered_to,
				"fail": r.err().map(|f| json!({"kind": f.kind, "msg": f.msg}))})
		});
		(serde_json::to_vec(&r).unwrap(), false)
	});
	crate::search::cleanup_scratch();
	let mut out = json!({"traces": files.len(), "ops": 0u64, "crash_points": 0u64, "images": 0u64, "distinct": 0u64, "power_loss": 0u64, "max_dirty": 0u64, "capped": 0u64, "failures": []});
	let mut rec: std::collections::BTreeMap<String, u64> = Default::default();
	for (i, it) in items.into_iter().enumerate() {
		let j: serde_json::Value = match it {
			Item::Done(b) => serde_json::from_slice(&b).unwrap_or(json!({"machinery": "bad worker output"})),
			Item::Crashed(why) => json!({"fail": {"kind": "crash", "msg": format!("judging the trace: {}", why)}}),
			Item::NotRun => json!({"machinery": "trace not judged"}),
		};
		if let Some(m) = j["machinery"].as_str() {
			crate::report::machinery_error(m);
		}
		for k in ["ops", "crash_points", "images", "distinct", "power_loss", "capped"] {
			out[k] = json!(out[k].as_u64().unwrap() + j[k].as_u64().unwrap_or(0));
		}
		out["max_dirty"] = json!(out["max_dirty"].as_u64().unwrap().max(j["max_dirty"].as_u64().unwrap_or(0)));
		if let Some(o) = j["recovered_to"].as_object() {
			for (k, v) in o {
				*rec.entry(k.clone()).or_default() += v.as_u64().unwrap_or(0);
			}
		}
		if !j["fail"].is_null() {
			if j["fail"]["kind"] == "machinery" {
				crate::report::machinery_error(j["fail"]["msg"].as_str().unwrap_or("?"));
			}
			out["failures"].as_array_mut().unwrap().push(json!({"file": files[i].to_string_lossy(), "kind": j["fail"]["kind"], "msg": j["fail"]["msg"]}));
		}
	}
	out["recovered_to"] = json!(rec);
	println!("{}", out);
	std::process::exit(0)
}
