//! One execution of a history against the real `Db` (stepping mode: no background threads),
//! in lock-step with the reference model, with the oracle evaluated after every event.

use crate::core::*;
use crate::model::*;
use parity_db::{verif::Digest, BTreeIterator, Db, Operation};
use std::collections::BTreeMap;
use std::panic::{catch_unwind, AssertUnwindSafe};
use std::path::{Path, PathBuf};
use std::sync::Arc;

#[derive(Clone, Debug)]
pub struct Fail {
	/// "panic" | "mismatch" | "error" | "accept" | "reject"
	pub kind: String,
	pub msg: String,
}

impl Fail {
	pub fn new(kind: &str, msg: String) -> Fail {
		Fail { kind: kind.into(), msg }
	}
}

/// Where the model says the open iterator stands.
#[derive(Clone, Debug, PartialEq, Eq, Hash)]
pub enum ItPos {
	Start,
	End,
	At(Vec<u8>),
	Seeked(Vec<u8>),
}

pub struct ItState {
	pub col: u8,
	// lifetime-erased iterator borrowing from the boxed Db in `Exec::db`
	it: BTreeIterator<'static>,
	pub pos: ItPos,
}

impl ItState {
	/// the implementation's complete internal iterator position (hook H4b)
	pub fn state_string(&self) -> String {
		self.it.verif_state()
	}
}

pub type TreeGuardBox = Box<dyn std::any::Any>;

pub struct Exec {
	pub dir: PathBuf,
	pub cfg: Config,
	pub db: Option<Box<Db>>,
	pub model: Model,
	/// model state after each accepted commit (S_0 = empty)
	pub prefix: Vec<Model>,
	pub universe: Arc<Vec<Vec<Vec<u8>>>>,
	pub it: Option<ItState>,
	pub last_it_result: Option<String>,
	pub locks: BTreeMap<(u8, Vec<u8>), crate::trees::HeldLock>,
	pub tree_addr: crate::trees::AddrBook,
	pub rejected: usize,
	pub check_iter_rc: bool,
	pub record_prefix: bool,
	/// stage-call booleans observed (for the pipeline model conformance)
	pub last_stage_result: Option<bool>,
	pub pm: crate::pm::Pm,
	pub pm_checked: u64,
	/// background-error state entered: every later commit must be refused
	pub bg_err: bool,
	/// a pipeline step failed after taking a commit from the queue: that commit is neither queued nor logged, so
	/// "every accepted commit is in the log" does not hold although the queue is empty (fault runs)
	pub commit_lost: bool,
	/// compare get_num_column_value_entries with the model (multitree columns)
	pub check_entries: bool,
	/// accepted transactions in commit order (recorded with the prefix list)
	/// columns the oracle does not read (C17: the column an interrupted administration call was working on)
	pub skip_cols: Vec<u8>,
	pub accepted_txs: Vec<Tx>,
}

pub fn wipe_dir(dir: &Path) {
	let _ = std::fs::remove_dir_all(dir);
	std::fs::create_dir_all(dir).unwrap();
}

pub fn panic_msg(e: Box<dyn std::any::Any + Send>) -> String {
	if let Some(s) = e.downcast_ref::<&str>() {
		s.to_string()
	} else if let Some(s) = e.downcast_ref::<String>() {
		s.clone()
	} else {
		"<non-string panic>".into()
	}
}

pub fn to_operation(op: &Op, col: u8, ex: &Exec) -> Result<Operation<Vec<u8>, Vec<u8>>, Fail> {
	Ok(match op {
		Op::Set(k, v) => Operation::Set(k.bytes(), v.bytes()),
		Op::Del(k) => Operation::Dereference(k.bytes()),
		Op::Ref(k) => Operation::Reference(k.bytes()),
		Op::InsertTree(k, n) => Operation::InsertTree(k.bytes(), crate::trees::to_new_node(n, col, ex)?),
		Op::RefTree(k) => Operation::ReferenceTree(k.bytes()),
		Op::DerefTree(k) => Operation::DereferenceTree(k.bytes()),
	})
}

impl Exec {
	pub fn new(dir: &Path, cfg: &Config, universe: Arc<Vec<Vec<Vec<u8>>>>) -> Result<Exec, Fail> {
		wipe_dir(dir);
		let mut ex = Exec {
			dir: dir.to_path_buf(),
			cfg: cfg.clone(),
			db: None,
			model: Model::new(cfg),
			prefix: vec![],
			universe,
			it: None,
			last_it_result: None,
			locks: BTreeMap::new(),
			tree_addr: Default::default(),
			rejected: 0,
			check_iter_rc: true,
			record_prefix: false,
			last_stage_result: None,
			pm: crate::pm::Pm::default(),
			pm_checked: 0,
			bg_err: false,
			commit_lost: false,
			check_entries: true,
			accepted_txs: vec![],
			skip_cols: vec![],
		};
		ex.open(true)?;
		Ok(ex)
	}

	/// An execution context over an existing directory (no wipe, not yet opened).
	pub fn detached(dir: &Path, cfg: &Config, universe: Arc<Vec<Vec<Vec<u8>>>>) -> Exec {
		Exec {
			dir: dir.to_path_buf(),
			cfg: cfg.clone(),
			db: None,
			model: Model::new(cfg),
			prefix: vec![],
			universe,
			it: None,
			last_it_result: None,
			locks: BTreeMap::new(),
			tree_addr: Default::default(),
			rejected: 0,
			check_iter_rc: true,
			record_prefix: false,
			last_stage_result: None,
			pm: crate::pm::Pm::default(),
			pm_checked: 0,
			bg_err: false,
			commit_lost: false,
			check_entries: true,
			accepted_txs: vec![],
			skip_cols: vec![],
		}
	}

	pub fn open(&mut self, create: bool) -> Result<(), Fail> {
		let opts = self.cfg.options(&self.dir);
		let r = catch_unwind(AssertUnwindSafe(|| if create { Db::open_or_create(&opts) } else { Db::open(&opts) }));
		match r {
			Err(e) => Err(Fail::new("panic", format!("open panicked: {}", panic_msg(e)))),
			Ok(Err(e)) => Err(Fail::new("error", format!("open failed: {}", e))),
			Ok(Ok(db)) => {
				self.db = Some(Box::new(db));
				Ok(())
			},
		}
	}

	pub fn db(&self) -> &Db {
		self.db.as_ref().expect("db open")
	}

	pub fn digest(&self) -> Digest {
		self.db().verif_digest()
	}

	pub fn close(&mut self) -> Result<(), Fail> {
		self.it = None;
		self.locks.clear();
		self.model.unlock_all();
		if let Some(db) = self.db.take() {
			let r = catch_unwind(AssertUnwindSafe(move || drop(db)));
			if let Err(e) = r {
				return Err(Fail::new("panic", format!("drop panicked: {}", panic_msg(e))))
			}
		}
		Ok(())
	}

	/// Forget the handle without running its destructor (after a panic inside the library).
	pub fn abandon(&mut self) {
		if let Some(it) = self.it.take() {
			std::mem::forget(it);
		}
		let locks = std::mem::take(&mut self.locks);
		std::mem::forget(locks);
		if let Some(db) = self.db.take() {
			std::mem::forget(db);
		}
	}

	fn stage(&mut self, s: St) -> Result<bool, Fail> {
		let db = self.db();
		let r = catch_unwind(AssertUnwindSafe(|| db.verif_step(s.to_stage())));
		match r {
			Err(e) => Err(Fail::new("panic", format!("stage {} panicked: {}", s.name(), panic_msg(e)))),
			Ok(Err(e)) => Err(Fail::new("error", format!("stage {} failed: {}", s.name(), e))),
			Ok(Ok(b)) => Ok(b),
		}
	}

	/// Would `E` block in stepping mode (waits for a cleanup worker that does not exist)?
	pub fn enact_would_block(&self) -> bool {
		let max = if self.cfg.sync_data { 4 } else { 16 };
		self.digest().cleanup_queue > max
	}

	pub fn drain(&mut self) -> Result<(), Fail> {
		loop {
			let mut any = false;
			while self.stage(St::P)? {
				any = true;
			}
			while self.stage(St::R)? {
				any = true;
			}
			if self.stage(St::F)? {
				any = true;
			}
			loop {
				if self.enact_would_block() {
					self.stage(St::K)?;
				}
				if !self.stage(St::E)? {
					break
				}
				any = true;
			}
			if self.stage(St::K)? {
				any = true;
			}
			if !any {
				break
			}
		}
		let d = self.digest();
		self.pm.sync_from(&d);
		Ok(())
	}

	pub fn commit(&mut self, tx: &Tx) -> Result<bool, Fail> {
		let mut ops = Vec::new();
		for (c, op) in tx {
			ops.push((*c, to_operation(op, *c, self)?));
		}
		let mut m2 = self.model.clone();
		let mut expected = m2.apply(tx);
		if self.bg_err {
			expected = Err("database is in the background-error state".into());
		}
		// a dereference of a root that is gone in commit order may be refused or accepted as a no-op
		let may_reject = expected.is_ok() && self.model.derefs_missing_root(tx);
		let before = if expected.is_err() || may_reject { Some((self.digest(), crate::search::hash_dir(&self.dir))) } else { None };
		let db = self.db();
		let r = catch_unwind(AssertUnwindSafe(|| db.commit_changes(ops)));
		match (r, expected) {
			(Err(e), _) => Err(Fail::new("panic", format!("commit {} panicked: {}", tx_short(tx), panic_msg(e)))),
			(Ok(Ok(())), Ok(())) => {
				self.model = m2;
				if self.record_prefix {
					self.prefix.push(self.model.clone());
					self.accepted_txs.push(tx.clone());
				}
				self.pm.commit(tx, &self.cfg);
				Ok(true)
			},
			(Ok(Err(_)), Err(_)) => {
				self.rejected += 1;
				// no trace: nothing published, queued, claimed, counted or written
				let (d0, f0) = before.unwrap();
				let d1 = self.digest();
				let f1 = crate::search::hash_dir(&self.dir);
				if d0.rest_hash != d1.rest_hash || f0 != f1 {
					let mut what = vec![];
					if d0.commit_overlay_entries != d1.commit_overlay_entries {
						what.push(format!("commit overlay entries {} -> {}", d0.commit_overlay_entries, d1.commit_overlay_entries));
					}
					if d0.commit_queue_len != d1.commit_queue_len {
						what.push(format!("commit queue {} -> {}", d0.commit_queue_len, d1.commit_queue_len));
					}
					if d0.to_dereference != d1.to_dereference {
						what.push(format!("queued tree dereferences {} -> {}", d0.to_dereference, d1.to_dereference));
					}
					if f0 != f1 {
						what.push("file bytes changed".into());
					}
					if what.is_empty() {
						what.push("in-memory state changed (overlay contents, claimed value-table slots, free lists or counters)".into());
					}
					return Err(Fail::new("trace", format!(
						"rejected commit {} left a trace: {}", tx_short(tx), what.join("; "))))
				}
				Ok(false)
			},
			(Ok(Err(_)), Ok(())) if may_reject => {
				self.rejected += 1;
				let (d0, f0) = before.unwrap();
				if d0.rest_hash != self.digest().rest_hash || f0 != crate::search::hash_dir(&self.dir) {
					return Err(Fail::new("trace", format!("rejected commit {} left a trace", tx_short(tx))))
				}
				Ok(false)
			},
			(Ok(Ok(())), Err(why)) => Err(Fail::new(
				"accept",
				format!("commit {} was accepted but must be rejected: {}", tx_short(tx), why),
			)),
			(Ok(Err(e)), Ok(())) =>
				Err(Fail::new("reject", format!("valid commit {} was rejected: {}", tx_short(tx), e))),
		}
	}

	pub fn apply(&mut self, ev: &Ev) -> Result<(), Fail> {
		self.last_stage_result = None;
		match ev {
			Ev::Commit(tx) => {
				self.commit(tx)?;
			},
			Ev::Stage(s) => {
				let d0 = if self.pm.enabled { Some(self.digest()) } else { None };
				let queued_before = if *s == St::P { self.digest().commit_queue_len } else { 0 };
				let b = self.stage(*s)?;
				self.last_stage_result = Some(b);
				// The log worker goes to sleep when process_commits reports that there was nothing to do, and is only woken
				// by the next commit (or shutdown). Whatever it did with the commit it took from a non-empty queue (logged
				// it, or postponed a tree removal and queued it again), it must not report "nothing to do": the rest of the
				// queue (C15), and a postponed removal whose reader has been released since (C11), would wait for the next
				// unrelated commit.
				if *s == St::P && queued_before > 0 && !b {
					return Err(Fail::new("stall", format!("process_commits was called with {} commit(s) queued and reported that there was nothing to do ({} still queued): the log worker would go to sleep with work pending", queued_before, self.digest().commit_queue_len)))
				}
				if let Some(d0) = d0 {
					let d1 = self.digest();
					self.pm.step(*s, b, &d0, &d1).map_err(|m| Fail::new("model-divergence", m))?;
					self.pm_checked += 1;
				}
			},
			Ev::Drain => self.drain()?,
			Ev::BgErr => {
				let db = self.db();
				db.verif_store_err(Err(parity_db::Error::Corruption("injected background error".into())));
				self.bg_err = true;
			},
			Ev::Reopen => {
				self.close()?;
				self.open(false)?;
				self.bg_err = false;
				let d = self.digest();
				self.pm.sync_from(&d);
			},
			Ev::It(c) => self.it_call(c)?,
			Ev::Lock(c, k) => {
				crate::trees::lock(self, *c, k)?;
				if self.locks.contains_key(&(*c, k.bytes())) {
					self.model.lock(*c, &k.bytes());
				}
			},
			Ev::Unlock(c, k) => {
				self.locks.remove(&(*c, k.bytes()));
				self.model.unlock(*c, &k.bytes());
			},
		}
		Ok(())
	}

	// ---------------------------------------------------------------- iterator (C04)

	fn kv(&self, col: u8) -> &BTreeMap<Vec<u8>, Vec<u8>> {
		match &self.model.cols[col as usize] {
			ColModel::Kv(m) => m,
			_ => panic!("iterator on non-kv model"),
		}
	}

	fn it_call(&mut self, c: &ItCall) -> Result<(), Fail> {
		use std::ops::Bound::*;
		match c {
			ItCall::Open(col) => {
				let db: &Db = self.db.as_ref().unwrap();
				// erase the borrow: the iterator is dropped before the Db (close/abandon/Close)
				let db: &'static Db = unsafe { &*(db as *const Db) };
				let it = catch_unwind(AssertUnwindSafe(|| db.iter(*col)))
					.map_err(|e| Fail::new("panic", format!("iter() panicked: {}", panic_msg(e))))?
					.map_err(|e| Fail::new("error", format!("iter() failed: {}", e)))?;
				self.it = Some(ItState { col: *col, it, pos: ItPos::Start });
				self.last_it_result = None;
				return Ok(())
			},
			ItCall::Close => {
				self.it = None;
				return Ok(())
			},
			_ => (),
		}
		let col = match &self.it {
			Some(s) => s.col,
			None => return Ok(()), // no iterator open: call is a no-op in the history
		};
		let m = self.kv(col).clone();
		let st = self.it.as_mut().unwrap();
		let call = c.clone();
		let it = &mut st.it;
		let r = catch_unwind(AssertUnwindSafe(|| -> parity_db::Result<Option<Option<(Vec<u8>, Vec<u8>)>>> {
			match &call {
				ItCall::Seek(k) => it.seek(&k.bytes()).map(|_| None),
				ItCall::First => it.seek_to_first().map(|_| None),
				ItCall::Last => it.seek_to_last().map(|_| None),
				ItCall::Next => it.next().map(Some),
				ItCall::Prev => it.prev().map(Some),
				_ => unreachable!(),
			}
		}));
		let got = match r {
			Err(e) => return Err(Fail::new("panic", format!("iterator call {:?} panicked: {}", c, panic_msg(e)))),
			Ok(Err(e)) => return Err(Fail::new("error", format!("iterator call {:?} failed: {}", c, e))),
			Ok(Ok(g)) => g,
		};
		let kv = |o: Option<(&Vec<u8>, &Vec<u8>)>| o.map(|(k, v)| (k.clone(), v.clone()));
		match c {
			ItCall::Seek(k) => st.pos = ItPos::Seeked(k.bytes()),
			ItCall::First => st.pos = ItPos::Seeked(vec![]),
			ItCall::Last => st.pos = ItPos::End,
			ItCall::Next | ItCall::Prev => {
				let fwd = matches!(c, ItCall::Next);
				let expected: Option<(Vec<u8>, Vec<u8>)> = match (&st.pos, fwd) {
					(ItPos::Start, true) => kv(m.iter().next()),
					(ItPos::Start, false) => None,
					(ItPos::End, true) => None,
					(ItPos::End, false) => kv(m.iter().next_back()),
					(ItPos::At(k), true) => kv(m.range::<Vec<u8>, _>((Excluded(k), Unbounded)).next()),
					(ItPos::At(k), false) => kv(m.range::<Vec<u8>, _>((Unbounded, Excluded(k))).next_back()),
					(ItPos::Seeked(k), true) => kv(m.range::<Vec<u8>, _>((Included(k), Unbounded)).next()),
					(ItPos::Seeked(k), false) => kv(m.range::<Vec<u8>, _>((Unbounded, Included(k))).next_back()),
				};
				let got = got.unwrap();
				if got != expected {
					let sh = |o: &Option<(Vec<u8>, Vec<u8>)>| match o {
						None => "None".to_string(),
						Some((k, v)) => format!("({}, {}B#{:x})", short_hex(k), v.len(), fnv(v, 1)),
					};
					return Err(Fail::new(
						"mismatch",
						format!(
							"iterator {} from {:?}: expected {}, got {}",
							if fwd { "next" } else { "prev" },
							st.pos,
							sh(&expected),
							sh(&got)
						),
					))
				}
				st.pos = match (&expected, fwd) {
					(Some((k, _)), _) => ItPos::At(k.clone()),
					(None, true) => ItPos::End,
					(None, false) => ItPos::Start,
				};
				self.last_it_result = Some(format!("{:?}", expected.map(|(k, _)| hex(&k))));
			},
			_ => unreachable!(),
		}
		Ok(())
	}

	// ---------------------------------------------------------------- oracle

	/// Compare every observable of every column with the model; first failure only.
	pub fn check(&self) -> Result<(), Fail> {
		match self.check_all().into_iter().next() {
			Some(f) => Err(f),
			None => Ok(()),
		}
	}

	/// All failures (one per independent clause of the oracle).
	pub fn check_all(&self) -> Vec<Fail> {
		let mut out = vec![];
		for ci in 0..self.model.cols.len() {
			if self.skip_cols.contains(&(ci as u8)) {
				continue
			}
			for clause in 0..3 {
				let r = catch_unwind(AssertUnwindSafe(|| self.check_clause(ci, clause)));
				match r {
					Err(e) => out.push(Fail::new("panic", format!("read panicked: {}", panic_msg(e)))),
					Ok(Err(f)) => out.push(f),
					Ok(Ok(())) => (),
				}
			}
		}
		out
	}

	/// clause 0: point reads; 1: scans / value iteration; 2: tree walks
	fn check_clause(&self, ci: usize, clause: u8) -> Result<(), Fail> {
		let db = self.db();
		let d = self.digest();
		let queue_empty = d.commit_queue_len == 0 && !self.commit_lost;
		let pending = d.log_overlay_index + d.log_overlay_value + d.log_overlay_ref_count;
		{
			let cm = &self.model.cols[ci];
			let c = ci as u8;
			let spec = &self.cfg.cols[ci];
			match cm {
				ColModel::Kv(m) => {
					if clause == 1 {
						if spec.btree {
							self.check_btree_scan(c, m)?;
						}
						return Ok(())
					}
					if clause != 0 {
						return Ok(())
					}
					for k in self.universe[ci].iter() {
						let got = db.get(c, k).map_err(|e| Fail::new("error", format!("get(c{},{}) failed: {}", c, hex(k), e)))?;
						let exp = m.get(k);
						if got.as_ref() != exp {
							return Err(Fail::new("mismatch", format!(
								"get(c{}, {}): expected {}, got {}", c, short_hex(k), show_val(exp), show_val(got.as_ref()))))
						}
						let sz = db.get_size(c, k).map_err(|e| Fail::new("error", format!("get_size(c{},{}) failed: {}", c, hex(k), e)))?;
						if sz != exp.map(|v| v.len() as u32) {
							return Err(Fail::new("mismatch", format!(
								"get_size(c{}, {}): expected {:?}, got {:?}", c, short_hex(k), exp.map(|v| v.len()), sz)))
						}
					}
				},
				ColModel::Rc(m) => {
					if clause == 2 {
						return Ok(())
					}
					for k in self.universe[ci].iter() {
						if clause != 0 {
							break
						}
						let got = db.get(c, k).map_err(|e| Fail::new("error", format!("get(c{},{}) failed: {}", c, hex(k), e)))?;
						match m.get(k) {
							Some((v, cnt)) => {
								debug_assert!(*cnt > 0);
								if got.as_ref() != Some(v) {
									return Err(Fail::new("mismatch", format!(
										"get(c{}, {}): count is {} so the value must be readable; expected {}, got {}",
										c, short_hex(k), cnt, show_val(Some(v)), show_val(got.as_ref()))))
								}
							},
							None =>
								if queue_empty && got.is_some() {
									return Err(Fail::new("mismatch", format!(
										"get(c{}, {}): count is 0 and all commits are logged; expected None, got {}",
										c, short_hex(k), show_val(got.as_ref()))))
								},
						}
					}
					if clause == 1 && !spec.btree && queue_empty && self.check_iter_rc {
						let mut got: Vec<(Vec<u8>, u32)> = vec![];
						db.iter_column_while(c, |s| {
							got.push((s.value, s.rc));
							true
						})
						.map_err(|e| Fail::new("error", format!("iter_column_while(c{}) failed: {}", c, e)))?;
						got.sort();
						let mut exp: Vec<(Vec<u8>, u32)> =
							m.values().map(|(v, n)| (v.clone(), (*n).min(u32::MAX as u64) as u32)).collect();
						exp.sort();
						if got != exp {
							let sh = |v: &Vec<(Vec<u8>, u32)>| {
								v.iter().map(|(v, n)| format!("{}B#{:x}x{}", v.len(), fnv(v, 1), n)).collect::<Vec<_>>().join(",")
							};
							return Err(Fail::new("iter-mismatch", format!(
								"iter_column_while(c{}): expected [{}], got [{}] ({})", c, sh(&exp), sh(&got),
								if pending > 0 { "state: logged records not yet enacted" } else { "state: every logged record enacted" })))
						}
					}
				},
				ColModel::Tree(t) =>
					if clause == 2 {
						crate::trees::check(self, c, t, queue_empty)?
					},
			}
		}
		Ok(())
	}

	fn check_btree_scan(&self, c: u8, m: &BTreeMap<Vec<u8>, Vec<u8>>) -> Result<(), Fail> {
		let db = self.db();
		let e = |e: parity_db::Error| Fail::new("error", format!("btree scan failed: {}", e));
		let mut it = db.iter(c).map_err(e)?;
		it.seek_to_first().map_err(e)?;
		let mut got = vec![];
		while let Some((k, v)) = it.next().map_err(e)? {
			got.push((k, v));
			if got.len() > m.len() + 8 {
				break
			}
		}
		let exp: Vec<(Vec<u8>, Vec<u8>)> = m.iter().map(|(k, v)| (k.clone(), v.clone())).collect();
		if got != exp {
			return Err(Fail::new("mismatch", format!(
				"forward scan of c{}: expected keys {:?}, got {:?}", c,
				exp.iter().map(|x| short_hex(&x.0)).collect::<Vec<_>>(), got.iter().map(|x| short_hex(&x.0)).collect::<Vec<_>>())))
		}
		let mut it = db.iter(c).map_err(e)?;
		it.seek_to_last().map_err(e)?;
		let mut got = vec![];
		while let Some((k, v)) = it.prev().map_err(e)? {
			got.push((k, v));
			if got.len() > m.len() + 8 {
				break
			}
		}
		got.reverse();
		if got != exp {
			return Err(Fail::new("mismatch", format!(
				"backward scan of c{}: expected keys {:?}, got {:?}", c,
				exp.iter().map(|x| short_hex(&x.0)).collect::<Vec<_>>(), got.iter().map(|x| short_hex(&x.0)).collect::<Vec<_>>())))
		}
		Ok(())
	}

	/// A compact rendering of what the database currently answers (for distinct-outcome counts
	/// and for crash oracles: compared with the same rendering of a model state).
	pub fn observe(&self) -> Result<String, Fail> {
		let r = catch_unwind(AssertUnwindSafe(|| crate::observe::observe_db(self)));
		match r {
			Err(e) => Err(Fail::new("panic", format!("read panicked: {}", panic_msg(e)))),
			Ok(r) => r,
		}
	}
}

pub fn short_hex(k: &[u8]) -> String {
	if k.len() <= 16 {
		hex(k)
	} else {
		format!("{}..({}B)", hex(&k[..8]), k.len())
	}
}

pub fn show_val(v: Option<&Vec<u8>>) -> String {
	match v {
		None => "None".into(),
		Some(v) if v.len() <= 8 => format!("Some({})", hex(v)),
		Some(v) => format!("Some({}B #{:x})", v.len(), fnv(v, 1)),
	}
}
