//! Canonical rendering of "what the database answers", computable both from the
//! implementation (reads) and from a model state; crash oracles compare the two.

use crate::core::*;
use crate::exec::*;
use crate::model::*;

fn vh(v: Option<&Vec<u8>>) -> String {
	match v {
		None => "-".into(),
		Some(v) => format!("{}#{:x}", v.len(), fnv(v, 0xcbf29ce484222325)),
	}
}

pub fn observe_model(m: &Model, universe: &[Vec<Vec<u8>>]) -> String {
	let mut s = String::new();
	for (ci, cm) in m.cols.iter().enumerate() {
		s.push_str(&format!("c{}:", ci));
		match cm {
			ColModel::Kv(map) =>
				for k in universe[ci].iter() {
					s.push_str(&vh(map.get(k)));
					s.push(',');
				},
			ColModel::Rc(map) => {
				for k in universe[ci].iter() {
					s.push_str(&vh(map.get(k).map(|x| &x.0)));
					s.push(',');
				}
				if !m.specs[ci].btree {
					let mut it: Vec<String> = map.values().map(|(v, n)| format!("{}x{}", vh(Some(v)), n)).collect();
					it.sort();
					s.push_str(&format!("|it:{}", it.join(",")));
				}
			},
			ColModel::Tree(t) => s.push_str(&crate::trees::observe_model(t, &universe[ci])),
		}
		s.push(';');
	}
	s
}

pub fn observe_db(ex: &Exec) -> Result<String, Fail> {
	let db = ex.db();
	let mut s = String::new();
	for (ci, cm) in ex.model.cols.iter().enumerate() {
		let c = ci as u8;
		s.push_str(&format!("c{}:", ci));
		match cm {
			ColModel::Kv(_) =>
				for k in ex.universe[ci].iter() {
					let got = db.get(c, k).map_err(|e| Fail::new("error", format!("get(c{},{}) failed: {}", c, hex(k), e)))?;
					let sz = db.get_size(c, k).map_err(|e| Fail::new("error", format!("get_size(c{},{}) failed: {}", c, hex(k), e)))?;
					if sz != got.as_ref().map(|v| v.len() as u32) {
						return Err(Fail::new("mismatch", format!("get_size(c{},{}) = {:?} but get returns {}", c, hex(k), sz, show_val(got.as_ref()))))
					}
					s.push_str(&vh(got.as_ref()));
					s.push(',');
				},
			ColModel::Rc(_) => {
				for k in ex.universe[ci].iter() {
					let got = db.get(c, k).map_err(|e| Fail::new("error", format!("get(c{},{}) failed: {}", c, hex(k), e)))?;
					s.push_str(&vh(got.as_ref()));
					s.push(',');
				}
				if !ex.cfg.cols[ci].btree {
					let mut it: Vec<String> = vec![];
					db.iter_column_while(c, |st| {
						it.push(format!("{}x{}", vh(Some(&st.value)), st.rc));
						true
					})
					.map_err(|e| Fail::new("error", format!("iter_column_while(c{}) failed: {}", c, e)))?;
					it.sort();
					s.push_str(&format!("|it:{}", it.join(",")));
				}
			},
			ColModel::Tree(_) => s.push_str(&crate::trees::observe_db(ex, c)?),
		}
		s.push(';');
	}
	Ok(s)
}
