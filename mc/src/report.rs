//! Evidence files, replay files, known findings, budgets, exit codes.

use serde_json::{json, Value as J};
use std::path::PathBuf;
use std::time::Instant;

pub struct Budget {
	pub start: Instant,
	pub wall_s: f64,
}

impl Budget {
	pub fn new(wall_s: f64) -> Budget {
		Budget { start: Instant::now(), wall_s }
	}
	pub fn exceeded(&self) -> bool {
		self.start.elapsed().as_secs_f64() > self.wall_s
	}
	pub fn elapsed(&self) -> f64 {
		self.start.elapsed().as_secs_f64()
	}
}

pub fn verif_root() -> PathBuf {
	PathBuf::from(std::env::var("VERIF_ROOT").unwrap_or_else(|_| "/verif".into()))
}

/// Where evidence and replay files go (default: the verif root; mutant trials divert it).
pub fn out_root() -> PathBuf {
	std::env::var("VERIF_OUT").map(PathBuf::from).unwrap_or_else(|_| verif_root())
}

pub fn seed() -> i64 {
	std::env::var("VERIF_SEED").ok().and_then(|s| s.parse().ok()).unwrap_or(0)
}

#[derive(Clone, Debug)]
pub struct KnownFinding {
	pub property: String,
	pub id: String,
	/// all of these substrings must occur in the failure message / history rendering
	pub signature: Vec<String>,
	pub what: String,
	pub fixed: bool,
	/// further properties whose checks run into the same finding
	pub also: Vec<String>,
}

static KNOWN: std::sync::OnceLock<Vec<KnownFinding>> = std::sync::OnceLock::new();

pub fn known_findings() -> &'static Vec<KnownFinding> {
	KNOWN.get_or_init(load_known_findings)
}

pub fn load_known_findings() -> Vec<KnownFinding> {
	let p = verif_root().join("known_findings.jsonl");
	let mut v = vec![];
	if let Ok(s) = std::fs::read_to_string(&p) {
		for l in s.lines() {
			let l = l.trim();
			if l.is_empty() || l.starts_with('#') {
				continue
			}
			let j: J = match serde_json::from_str(l) {
				Ok(j) => j,
				Err(e) => {
					eprintln!("MACHINERY-ERROR: bad known_findings line: {} ({})", l, e);
					std::process::exit(2);
				},
			};
			v.push(KnownFinding {
				property: j["property"].as_str().unwrap_or("").into(),
				id: j["id"].as_str().unwrap_or("").into(),
				signature: j["signature"].as_array().map(|a| a.iter().map(|x| x.as_str().unwrap_or("").to_string()).collect()).unwrap_or_default(),
				what: j["what"].as_str().unwrap_or("").into(),
				fixed: j["status"].as_str().map_or(false, |s| s.starts_with("fixed")),
				also: j["also"].as_array().map(|a| a.iter().map(|x| x.as_str().unwrap_or("").to_string()).collect()).unwrap_or_default(),
			});
		}
	}
	v
}

/// Does a (minimised) violation match a listed, unfixed finding of this property?
pub fn match_known(property: &str, rendering: &str) -> Option<KnownFinding> {
	for k in known_findings().iter().cloned() {
		if k.fixed || (k.property != property && !k.also.iter().any(|p| p == property)) || k.signature.is_empty() {
			continue
		}
		if k.signature.iter().all(|s| rendering.contains(s.as_str())) {
			return Some(k)
		}
	}
	None
}

pub struct Run {
	pub property: String,
	pub tier: String,
	pub level: String,
	pub start: Instant,
	pub violations: Vec<(PathBuf, String)>,
	pub known: Vec<String>,
	pub coverage: serde_json::Map<String, J>,
	pub assumptions: Vec<String>,
	pub samples: Vec<J>,
	pub parts: Vec<J>,
	pub exhaustive: bool,
	/// evidence file name when it is not the property id (second part of a two-part check)
	pub evidence_name: Option<String>,
}

impl Run {
	pub fn new(property: &str, tier: &str, level: &str) -> Run {
		Run {
			property: property.into(),
			tier: tier.into(),
			level: level.into(),
			start: Instant::now(),
			violations: vec![],
			known: vec![],
			coverage: serde_json::Map::new(),
			assumptions: vec![],
			samples: vec![],
			parts: vec![],
			exhaustive: true,
			evidence_name: None,
		}
	}

	pub fn add_count(&mut self, key: &str, n: u64) {
		let cur = self.coverage.get(key).and_then(|v| v.as_u64()).unwrap_or(0);
		self.coverage.insert(key.into(), json!(cur + n));
	}

	pub fn set(&mut self, key: &str, v: J) {
		self.coverage.insert(key.into(), v);
	}

	pub fn sample(&mut self, v: J) {
		if self.samples.len() < 6 {
			self.samples.push(v);
		}
	}

	/// A listed finding was hit `n` times during exploration (tolerated): print it once.
	pub fn known_hit(&mut self, id: &str, n: u64) {
		if let Some(k) = known_findings().iter().find(|k| k.id == id) {
			let line = format!("KNOWN-FINDING: property={} {} [{}]", self.property, k.what, k.id);
			if !self.known.contains(&line) {
				println!("{}", line);
				self.known.push(line);
			}
			self.add_count(&format!("known_finding_hits:{}", id), n);
		}
	}

	/// Record a violation: write the replay artefact, classify against known findings.
	pub fn violation(&mut self, replay: J, rendering: &str) {
		if let Some(k) = match_known(&self.property, rendering) {
			let line = format!("KNOWN-FINDING: property={} {} [{}]", self.property, k.what, k.id);
			if !self.known.contains(&line) {
				println!("{}", line);
				self.known.push(line);
			}
			return
		}
		let dir = out_root().join("replays");
		let _ = std::fs::create_dir_all(&dir);
		let body = serde_json::to_string_pretty(&replay).unwrap();
		let h = crate::core::fnv(body.as_bytes(), 0xcbf29ce484222325);
		let path = dir.join(format!("{}-{:016x}.json", self.property, h));
		std::fs::write(&path, body).expect("write replay");
		println!("VIOLATION property={} replay={}", self.property, path.display());
		println!("  {}", rendering.replace('\n', "\n  "));
		self.violations.push((path, rendering.to_string()));
	}

	pub fn finish(mut self) -> ! {
		let wall = self.start.elapsed().as_secs_f64();
		self.coverage.insert("samples".into(), J::Array(self.samples.clone()));
		self.coverage.insert("exhaustive".into(), json!(self.exhaustive));
		if !self.parts.is_empty() {
			self.coverage.insert("parts".into(), J::Array(self.parts.clone()));
		}
		if !self.known.is_empty() {
			self.coverage.insert("known_findings_reported".into(), json!(self.known));
		}
		let ev = json!({
			"property_id": self.property,
			"tier": self.tier,
			"seed": seed(),
			"level": self.level,
			"coverage": J::Object(self.coverage.clone()),
			"assumptions": self.assumptions,
			"wall_s": wall,
			"violations": self.violations.len(),
		});
		let dir = out_root().join("evidence");
		let _ = std::fs::create_dir_all(&dir);
		let path = dir.join(format!("{}.json", self.evidence_name.clone().unwrap_or_else(|| self.property.clone())));
		std::fs::write(&path, serde_json::to_string_pretty(&ev).unwrap()).expect("write evidence");
		println!(
			"{} {}: {} in {:.1}s, evidence {}",
			self.property,
			self.tier,
			if self.violations.is_empty() { "held on everything explored" } else { "VIOLATED" },
			wall,
			path.display()
		);
		std::process::exit(if self.violations.is_empty() { 0 } else { 1 })
	}
}

pub fn machinery_error(msg: &str) -> ! {
	println!("MACHINERY-ERROR: {}", msg);
	std::process::exit(2)
}
