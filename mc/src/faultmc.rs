//! E2 family 5: persistent I/O failure from the j-th file operation of a pipeline step on (C16).
//! Two injectors: the interposed libc calls (EIO from the j-th mutating syscall on a database file) and the
//! crate's own `try_io!` counter (`set_number_of_allowed_io_operations`, covers the non-syscall sites).

use crate::core::*;
use crate::crash;
use crate::exec::*;
use crate::search::Scenario;
use std::path::Path;
use std::sync::atomic::Ordering::SeqCst;

#[derive(Clone, Debug, Default)]
pub struct FaultStats {
	pub runs: u64,
	pub faults_hit: u64,
	pub errors_reported: u64,
	pub commits_refused: u64,
	pub reopened: u64,
	pub max_ops_in_step: u64,
	pub power_loss_images: u64,
}

impl FaultStats {
	pub fn merge(&mut self, o: &FaultStats) {
		self.runs += o.runs;
		self.faults_hit += o.faults_hit;
		self.errors_reported += o.errors_reported;
		self.commits_refused += o.commits_refused;
		self.reopened += o.reopened;
		self.max_ops_in_step = self.max_ops_in_step.max(o.max_ops_in_step);
		self.power_loss_images += o.power_loss_images;
	}
}

fn faults_off() {
	crash::FAULT_AFTER.store(-1, SeqCst);
	parity_db::set_number_of_allowed_io_operations(usize::MAX);
}

/// One faulted execution. mode 0: syscall injector; mode 1: try_io injector. Returns Ok(fault was reached).
fn one(scn: &Scenario, dir: &Path, hist: &[Ev], ev: &Ev, mode: u8, j: usize, heal: bool, stats: &mut FaultStats) -> Result<bool, Fail> {
	crate::exec::wipe_dir(dir);
	crash::start(dir);
	let r = one_inner(scn, dir, hist, ev, mode, j, heal, stats);
	faults_off();
	crash::stop();
	r
}

fn one_inner(scn: &Scenario, dir: &Path, hist: &[Ev], ev: &Ev, mode: u8, j: usize, heal: bool, stats: &mut FaultStats) -> Result<bool, Fail> {
	let what = format!("{} fails from its {} #{} on{}", ev.short(), if mode == 0 { "file operation (syscall)" } else { "I/O site (try_io)" }, j, if heal { " (the fault goes away before the handle is dropped)" } else { "" });
	let tag = |f: Fail| Fail::new(&format!("fault-{}", f.kind), format!("{}: {}", what, f.msg));
	let mut ex = crate::search::build(scn, dir)?;
	ex.record_prefix = true;
	ex.check_iter_rc = false;
	ex.pm.enabled = true;
	let r = (|| -> Result<bool, Fail> {
		for e in scn.init.iter().chain(hist.iter()) {
			ex.apply(e)?;
		}
		let synced = ex.pm.synced;
		let n = ex.prefix.len();
		// arm
		let calls0 = crash::CALLS.load(SeqCst);
		if mode == 0 {
			crash::FAULT_AFTER.store(calls0 + j as i64, SeqCst);
		} else {
			parity_db::set_number_of_allowed_io_operations(j);
		}
		let mut reported = false;
		match ev {
			Ev::Stage(s) => {
				let db = ex.db();
				let r = std::panic::catch_unwind(std::panic::AssertUnwindSafe(|| db.verif_step(s.to_stage())));
				match r {
					Err(e) => return Err(tag(Fail::new("panic", format!("the step panicked: {}", panic_msg(e))))),
					Ok(Err(e)) => {
						reported = true;
						// what the worker thread does with its error
						db.verif_store_err(Err(e));
					},
					Ok(Ok(_)) => (),
				}
			},
			Ev::Reopen => {
				// drop under the fault (errors are logged, never raised), then a failing open is fine too
				ex.close().map_err(tag)?;
			},
			_ => return Ok(false),
		}
		let hit = if mode == 0 { crash::CALLS.load(SeqCst) > calls0 + j as i64 } else { parity_db::verif::io_budget_left() == 0 };
		stats.max_ops_in_step = stats.max_ops_in_step.max((crash::CALLS.load(SeqCst) - calls0) as u64);
		if let Ev::Stage(_) = ev {
			// (syscall injector only: with the crate's injector an exhausted budget does not tell whether a site
			// actually failed)
			if mode == 0 && hit && !reported {
				return Err(tag(Fail::new("unreported", "a file operation of the step failed but the step returned Ok".into())))
			}
			if reported {
				stats.errors_reported += 1;
				// the failed step may have taken a commit from the queue without getting it into the log
				ex.commit_lost = true;
				// later commits are refused with the background error, and leave no trace
				let tx: Tx = scn.alphabet[0].clone();
				ex.bg_err = true;
				match ex.commit(&tx) {
					Ok(false) => stats.commits_refused += 1,
					Ok(true) => unreachable!(),
					Err(f) => return Err(tag(f)),
				}
			}
			// reads keep returning committed data. Reads perform no file operations (memory maps), but the crate's
			// injector also sits on its in-memory read paths: it models the pipeline's file operations, so it is
			// lifted for the reads and re-armed (exhausted) for the drop.
			if mode == 1 {
				parity_db::set_number_of_allowed_io_operations(usize::MAX);
			}
			let bad = ex.check_all().into_iter().next();
			if mode == 1 {
				parity_db::set_number_of_allowed_io_operations(0);
			}
			if let Some(f) = bad {
				return Err(tag(Fail::new(&f.kind, format!("reads after the failure: {}", f.msg))))
			}
			// The workers may each finish the iteration they were in when the failure was reported: one more
			// enact and one more cleanup step (results ignored), then the power goes: of everything not synced an
			// arbitrary subset of pages survives. Recovery must still give a prefix holding every synced commit.
			if scn.faults_then_power_loss && !heal {
				let db = ex.db();
				let _ = std::panic::catch_unwind(std::panic::AssertUnwindSafe(|| {
					let _ = db.verif_step(parity_db::verif::Stage::EnactOne);
					let _ = db.verif_step(parity_db::verif::Stage::CleanLogs);
				}));
				let was = crash::pause();
				let ops = crash::stop_peek();
				crash::resume(was);
				let (vol, dur) = crate::crashmc::shadows(&ops);
				let mut models = vec![crate::model::Model::new(&scn.cfg)];
				models.extend(ex.prefix.iter().cloned());
				let prefix_obs: Vec<String> = models.iter().map(|m| crate::observe::observe_model(m, &scn.universe)).collect();
				let cc = crate::crashmc::CrashCfg { torn: 0, recovery_depth: 1, power_loss: true, max_full_subsets: 6, ..Default::default() };
				let ctx = crate::crashmc::Ctx { cfg: &scn.cfg, universe: scn.universe.clone(), prefix_obs, prefix: &models, accepted: &ex.accepted_txs, crash: &cc, property: &scn.property };
				let mut cs = crate::crashmc::CrashStats::default();
				let was = crash::pause();
				let fa = crash::FAULT_AFTER.swap(-1, SeqCst);
				if mode == 1 {
					parity_db::set_number_of_allowed_io_operations(usize::MAX);
				}
				let r = crate::crashmc::power_loss(&ctx, &vol, &dur, synced, n, &format!("{}; the enact and cleanup workers finish their iteration; then", what), &mut cs);
				crash::FAULT_AFTER.store(fa, SeqCst);
				if mode == 1 {
					parity_db::set_number_of_allowed_io_operations(0);
				}
				crash::resume(was);
				stats.power_loss_images += cs.power_loss_images;
				r.map_err(|f| Fail::new(&format!("fault-then-power-loss-{}", f.kind), f.msg))?;
			}
			// drop with the fault still present must terminate without panic; in the `heal` variant the fault is gone
			// by the time the handle is dropped (the error-state shutdown path then really performs its file operations)
			if heal {
				faults_off();
			}
			ex.close().map_err(tag)?;
		}
		// the fault goes away; reopen
		faults_off();
		let mut ex2 = Exec::detached(dir, &scn.cfg, scn.universe.clone());
		ex2.check_iter_rc = false;
		ex2.open(false).map_err(|f| tag(Fail::new(&f.kind, format!("reopen after the fault is gone: {}", f.msg))))?;
		stats.reopened += 1;
		let obs = ex2.observe().map_err(tag)?;
		let mut models = vec![crate::model::Model::new(&scn.cfg)];
		models.extend(ex.prefix.iter().cloned());
		let prefix_obs: Vec<String> = models.iter().map(|m| crate::observe::observe_model(m, &scn.universe)).collect();
		let matches: Vec<usize> = (0..prefix_obs.len()).filter(|k| prefix_obs[*k] == obs).collect();
		let jj = matches.iter().rev().find(|k| **k >= synced).or(matches.last()).cloned();
		let r2 = match jj {
			None => Err(tag(Fail::new("not-a-prefix", format!("after reopen the state is not the state after any prefix of the {} committed transactions\n    recovered: {}", n, obs)))),
			Some(k) if k < synced => Err(tag(Fail::new("lost-synced", format!("after reopen the state is S_{} but {} transactions had been synced before the failure", k, synced)))),
			Some(k) => {
				ex2.model = models[k].clone();
				ex2.check_entries = false;
				match ex2.check_all().into_iter().next() {
					Some(f) => Err(tag(f)),
					None => Ok(()),
				}
			},
		};
		let _ = std::panic::catch_unwind(std::panic::AssertUnwindSafe(|| {
			let _ = ex2.close();
		}));
		r2?;
		Ok(hit)
	})();
	match &r {
		Err(f) if f.kind.contains("panic") => ex.abandon(),
		_ => {
			faults_off();
			let _ = std::panic::catch_unwind(std::panic::AssertUnwindSafe(|| {
				let _ = ex.close();
			}));
		},
	}
	r
}

/// All fault indices of one edge, both injectors.
pub fn sweep(scn: &Scenario, dir: &Path, hist: &[Ev], ev: &Ev, stats: &mut FaultStats) -> Result<(), Fail> {
	if !matches!(ev, Ev::Stage(_) | Ev::Reopen) {
		return Ok(())
	}
	for mode in [0u8, 1] {
		let mut j = 0;
		loop {
			stats.runs += 1;
			let hit = one(scn, dir, hist, ev, mode, j, false, stats)?;
			if !hit {
				break
			}
			if matches!(ev, Ev::Stage(_)) {
				stats.runs += 1;
				one(scn, dir, hist, ev, mode, j, true, stats)?;
			}
			stats.faults_hit += 1;
			j += 1;
			if mode == 1 && scn.fault_site_cap.map_or(false, |c| j >= c) {
				break
			}
			if j > 400 {
				return Err(Fail::new("machinery", format!("more than 400 fault points in {}", ev.short())))
			}
		}
	}
	Ok(())
}
