//! Per-property check configurations.

use crate::core::*;
use crate::report::*;
use crate::search::*;
use serde_json::json;

pub mod c01;
pub mod c02;
pub mod c03;
pub mod c04;
pub mod c06;
pub mod c07;
pub mod c08;
pub mod c09;
pub mod c10;
pub mod c11;
pub mod c12;
pub mod c13;
pub mod c14;
pub mod c16;
pub mod c17;
pub mod c18;
pub mod c19;
pub mod c20;

pub fn run(prop: &str, tier: &str) -> ! {
	match prop {
		"C01" => c01::run(tier),
		"C02" => c02::run(tier),
		"C03" => c03::run(tier),
		"C04" => c04::run(tier),
		"C06" => c06::run(tier),
		"C07" => c07::run(tier),
		"C08" => c08::run(tier),
		"C09" => c09::run(tier),
		"C10" => c10::run(tier),
		"C10R" => c10::run_small(tier),
		"C11" => c11::run(tier),
		"C12" => c12::run(tier),
		"C13" => c13::run(tier),
		"C14" => c14::run(tier),
		"C16" => c16::run(tier),
		"C17" => c17::run(tier),
		"C18" => c18::run(tier),
		"C19" => c19::run(tier),
		"C20" => c20::run(tier),
		_ => machinery_error(&format!("unknown property {}", prop)),
	}
}

/// Run a list of scenarios through the graph search, feeding one evidence record.
pub fn run_scenarios(run: &mut Run, scns: &[Scenario], budget: &Budget) {
	let mut total = Stats::new_complete();
	let only = std::env::var("PDBMC_ONLY").ok();
	for scn in scns {
		if let Some(o) = &only {
			if !scn.name.contains(o.as_str()) {
				continue
			}
		}
		let t0 = std::time::Instant::now();
		let mut scn = scn.clone();
		scn.property = run.property.clone();
		let scn = &scn;
		let (st, found) = graph_search(scn, budget);
		println!(
			"  scenario {:<40} states={} transitions={} executions={} depth={} outcomes={} multi-stage={} pm-traces={} {}{:.1}s",
			scn.name, st.states, st.transitions, st.executions, st.max_depth, st.distinct_obs, st.multi_stage_states,
			st.pm_validated_traces,
			if st.complete && scn.merge_check { format!("identity-validated={}/{}{} ", st.merge_checked_states, st.merge_checked_edges, if st.merge_layout_only > 0 { format!("(layout-only differences: {})", st.merge_layout_only) } else { String::new() }) } else if st.complete { String::new() } else { "CAPPED ".to_string() },
			t0.elapsed().as_secs_f64()
		);
		run.parts.push(json!({
			"scenario": scn.name, "config": scn.cfg.short(), "alphabet": scn.alphabet.len(),
			"max_commits": scn.max_commits, "max_reopen": scn.max_reopen,
			"states": st.states, "transitions": st.transitions, "executions": st.executions,
			"max_depth": st.max_depth, "distinct_outcomes": st.distinct_obs,
			"states_with_commits_at_2_or_more_stages": st.multi_stage_states,
			"complete": st.complete, "capped": st.capped_reason,
			"state_identity_validation": if scn.merge_check { json!({"merged_states_re_expanded_from_an_alternative_history": st.merge_checked_states, "edges_compared": st.merge_checked_edges, "of_these_equal_up_to_log_record_layout": st.merge_layout_only}) } else { json!(null) },
			"levels": st.levels.iter().map(|(a, b)| json!([a, b])).collect::<Vec<_>>(),
		}));
		if run.samples.len() < 5 {
			// actual explored histories: the middle state of the deepest levels
			if let Some(h) = st.samples.last() {
				run.sample(json!({"scenario": scn.name, "explored_history": h}));
			}
			if let Some(h) = st.samples.get(st.samples.len() / 2) {
				run.sample(json!({"scenario": scn.name, "explored_history": h}));
			}
		}
		total.add(&st);
		if scn.crash.is_some() {
			c02::crash_summary(run, &st);
			println!("    crash points={} images={} distinct={} recoveries={} nested={} power-loss={} max-dirty-pages={} recovered-to={:?}",
				st.crash.crash_points, st.crash.images, st.crash.distinct_images, st.crash.recoveries, st.crash.nested_recoveries,
				st.crash.power_loss_images, st.crash.max_dirty_pages, st.crash.recovered_to);
			if let Some(n) = st.crash.recovered_to.get("known:claimed-entries-leak") {
				run.known_hit("F-C02-claimed-entries-leak", *n);
			}
		}
		for (k, n) in st.known_hits.iter() {
			run.known_hit(k, *n);
		}
		if let Some(f) = found {
			let f = minimise(scn, &f);
			let rendering = format!(
				"scenario {} config {}\nhistory: {}\n{}: {}",
				f.scenario, f.cfg.short(), hist_short(&f.history), f.fail.kind, f.fail.msg
			);
			if f.fail.kind == "model-divergence" || f.fail.kind == "machinery" {
				machinery_error(&rendering);
			}
			let mut j = found_to_json(&run.property, &f);
			j["universe_extra"] = json!([]);
			run.violation(j, &rendering);
		}
	}
	run.add_count("states", total.states);
	run.add_count("transitions", total.transitions);
	run.add_count("evaluations", total.executions);
	run.add_count("traces_validated_against_impl", total.pm_validated_traces);
	run.add_count("pm_steps_checked", total.pm_steps_checked);
	run.add_count("distinct_nontrivial", total.states);
	run.add_count("distinct_outcomes", total.distinct_obs);
	run.add_count("states_with_commits_at_2_or_more_stages", total.multi_stage_states);
	if !total.complete {
		run.exhaustive = false;
		run.set("capped", json!(total.capped_reason));
	}
}

pub fn replay(path: &str) -> ! {
	let body = std::fs::read_to_string(path).unwrap_or_else(|e| machinery_error(&format!("cannot read {}: {}", path, e)));
	let j: serde_json::Value = serde_json::from_str(&body).unwrap_or_else(|e| machinery_error(&format!("bad replay file: {}", e)));
	match j["engine"].as_str().unwrap_or("") {
		"seqmc" => {
			let cfg = Config::from_json(&j["config"]);
			let hist = hist_from_json(&j["history"]);
			let mut alphabet: Vec<Tx> = vec![];
			for e in &hist {
				if let Ev::Commit(tx) = e {
					alphabet.push(tx.clone());
				}
			}
			let mut scn = Scenario::new("replay", cfg, alphabet);
			scn.pm = false;
			scn.property = j["property"].as_str().unwrap_or("").to_string();
			let dir = workdir("replay");
			let r = run_history(&scn, &dir, &hist);
			cleanup_scratch();
			match r {
				Ok(()) => {
					println!("replay: history ran to completion, every oracle check passed");
					std::process::exit(0)
				},
				Err((i, f)) => {
					println!("replay: failure after event #{} ({}): {}: {}", i, hist[i].short(), f.kind, f.msg);
					println!("VIOLATION property={} replay={}", j["property"].as_str().unwrap_or("?"), path);
					std::process::exit(1)
				},
			}
		},
		"pagemc" => c19::replay(&j),
		"loommc-trace" => {
			let t = crate::tracejudge::parse(&j).unwrap_or_else(|e| machinery_error(&format!("bad trace file: {}", e)));
			let mut st = crate::crashmc::CrashStats::default();
			let r = crate::tracejudge::judge(&t, &mut st);
			cleanup_scratch();
			match r {
				Ok(()) => {
					println!("replay: {} crash points, {} images of the recorded schedule recovered, every oracle check passed", st.crash_points, st.distinct_images);
					std::process::exit(0)
				},
				Err(f) => {
					println!("replay: {}: {}", f.kind, f.msg);
					println!("VIOLATION property={} replay={}", t.property, path);
					std::process::exit(1)
				},
			}
		},
		e => machinery_error(&format!("unknown engine {} in replay file", e)),
	}
}
