//! C20 — migration copies every key, value and reference count (E1 migrate mode).

use crate::core::*;
use crate::exec::*;
use crate::model::*;
use crate::par::{par_map, Item};
use crate::props::c10::rk;
use crate::report::*;
use crate::search::{cleanup_scratch, nthreads, universe_of, worker_dir};
use serde_json::json;
use std::collections::BTreeMap;

/// value determined by key (preimage contract holds for every configuration)
fn fv(k: &B, len: u32) -> B {
	B::Pat { len, seed: fnv(&k.bytes(), 17) as u32, kind: if len >= 4000 { 1 } else { 0 } }
}

fn mk(i: u32) -> B {
	B::pat(32, 9100 + i)
}

#[derive(Clone, Debug)]
struct Case {
	/// options of the migrated column in the source and in the destination
	src: ColSpec,
	dst: ColSpec,
	content: u8,
	/// extra, unselected columns after the migrated one: 0 none, 1 btree, 2 btree + multitree
	extra: u8,
	forced: bool,
	overwrite: bool,
	/// salt in the destination options: 0 = the source's, 1 = none, 2 = another one (migration must keep the source's:
	/// keys are carried over already hashed, unselected columns are copied as files)
	dst_salt: u8,
	/// source with uniform keys and the zero salt (identity hashing: the content set chooses index pages)
	uniform: bool,
}

fn variants() -> Vec<ColSpec> {
	let mut v = vec![];
	for comp in [0u8, 1, 2] {
		v.push(ColSpec { compression: comp, ..ColSpec::hash() });
		v.push(ColSpec { compression: comp, preimage: true, ..ColSpec::hash() });
		v.push(ColSpec { compression: comp, ..ColSpec::rc() });
	}
	v
}

fn content(c: u8, rc: bool) -> Vec<Tx> {
	let set = |i: u32, len: u32| (0u8, Op::Set(mk(i), fv(&mk(i), len)));
	match c {
		0 => vec![],
		1 => vec![vec![set(1, 10), set(2, 33), set(3, 5)]],
		2 => vec![vec![set(1, 10), set(2, 300), set(3, 6000)], vec![set(4, 40000), set(5, 1)]],
		5 => {
			// three keys of one index page (uniform keys, zero salt), the one inserted first removed again: a hole in
			// front of two live entries of the source index page
			let pk = |i: u8| crate::props::c09::page_key(0x4242, i);
			let s = |i: u8, len: u32| (0u8, Op::Set(pk(i), fv(&pk(i), len)));
			vec![vec![s(1, 10)], vec![s(2, 33), s(3, 5)], vec![(0u8, Op::Del(pk(1)))]]
		},
		3 => {
			// reference counts 1..3 (on a counting source); plain sets otherwise
			let mut t = vec![vec![set(1, 20), set(2, 40), set(3, 6000)]];
			if rc {
				t.push(vec![(0, Op::Ref(mk(2))), (0, Op::Ref(mk(3))), set(3, 6000)]);
			}
			t
		},
		_ => {
			// more than one migration batch (10240 operations): 3500 keys, each with count 3 on a counting source
			let mut t = vec![];
			for chunk in 0..7u32 {
				let mut tx: Tx = vec![];
				for i in 0..500u32 {
					let k = mk(1000 + chunk * 500 + i);
					tx.push((0u8, Op::Set(k.clone(), fv(&k, 12))));
					if rc {
						tx.push((0u8, Op::Ref(k.clone())));
						tx.push((0u8, Op::Ref(k)));
					}
				}
				t.push(tx);
			}
			t
		},
	}
}

fn extra_cols(extra: u8) -> Vec<ColSpec> {
	match extra {
		0 => vec![],
		1 => vec![ColSpec::btree()],
		_ => vec![ColSpec::btree(), ColSpec::tree()],
	}
}

fn extra_content(extra: u8) -> Vec<Tx> {
	let mut v = vec![];
	if extra >= 1 {
		v.push(vec![(1u8, Op::Set(B::lit(b"alpha"), B::pat(50, 1))), (1u8, Op::Set(B::lit(b"beta"), B::pat(5000, 2)))]);
	}
	if extra >= 2 {
		let shared = NodeSpec { data: B::pat(30, 7), children: vec![ChildSpec::New(NodeSpec::leaf(B::pat(4, 8)))] };
		v.push(vec![(2u8, Op::InsertTree(rk(1), NodeSpec { data: B::pat(9, 9), children: vec![ChildSpec::New(shared)] }))]);
		// a second tree sharing K1's child: its reference count lives in the ref-count table
		v.push(vec![(2u8, Op::InsertTree(rk(2), NodeSpec { data: B::pat(6, 10), children: vec![ChildSpec::Existing(rk(1), vec![0])] }))]);
	}
	v
}

fn translate(m: &ColModel, dst: &ColSpec) -> ColModel {
	match (m, dst.ref_counted) {
		(ColModel::Kv(k), false) => ColModel::Kv(k.clone()),
		(ColModel::Kv(k), true) => ColModel::Rc(k.iter().map(|(a, b)| (a.clone(), (b.clone(), 1))).collect()),
		(ColModel::Rc(k), true) => ColModel::Rc(k.clone()),
		(ColModel::Rc(k), false) => ColModel::Kv(k.iter().map(|(a, b)| (a.clone(), b.0.clone())).collect()),
		(t, _) => t.clone(),
	}
}

fn run_case(c: &Case) -> Result<(), Fail> {
	let base = worker_dir();
	let from = base.join("from");
	let to = base.join("to");
	let _ = std::fs::remove_dir_all(&base);
	std::fs::create_dir_all(&base).unwrap();
	let mut cols = vec![c.src.clone()];
	cols.extend(extra_cols(c.extra));
	let mut src_cfg = Config::new(cols.clone());
	if c.uniform {
		src_cfg.salt = 0;
	}
	let mut txs = content(c.content, c.src.ref_counted);
	txs.extend(extra_content(c.extra));
	let mut probe: Vec<(u8, B)> = (1..=6).map(|i| (0u8, mk(i))).collect();
	if c.content == 4 {
		probe.extend((1000..4500).map(|i| (0u8, mk(i))));
	}
	if c.content == 5 {
		probe.extend((1..=3u8).map(|i| (0u8, crate::props::c09::page_key(0x4242, i))));
	}
	let universe = universe_of(&src_cfg, &txs, &probe);
	let mut ex = Exec::new(&from, &src_cfg, universe.clone())?;
	for tx in txs.iter() {
		ex.commit(tx)?;
		ex.drain()?;
	}
	ex.check()?;
	let src_model = ex.model.clone();
	ex.close()?;
	// destination options
	let mut dcols = cols.clone();
	dcols[0] = c.dst.clone();
	let mut dst_cfg = Config::new(dcols.clone());
	dst_cfg.salt = src_cfg.salt;
	let mut to_opts = dst_cfg.options(&to);
	match c.dst_salt {
		1 => to_opts.salt = None,
		2 => to_opts.salt = Some([0x5c; 32]),
		_ => (),
	}
	let forced: Vec<u8> = if c.forced { vec![0] } else { vec![] };
	let r = std::panic::catch_unwind(std::panic::AssertUnwindSafe(|| parity_db::migrate(&from, to_opts, c.overwrite, &forced)));
	match r {
		Err(e) => return Err(Fail::new("panic", format!("migrate panicked: {}", panic_msg(e)))),
		Ok(Err(e)) => return Err(Fail::new("error", format!("migrate failed: {}", e))),
		Ok(Ok(())) => (),
	}
	// expected destination content
	let mut exp = Model { specs: dcols.clone(), cols: src_model.cols.clone(), locked: Default::default(), postponed: vec![] };
	exp.cols[0] = translate(&src_model.cols[0], &c.dst);
	let result_dir = if c.overwrite { &from } else { &to };
	let mut d = Exec::detached(result_dir, &dst_cfg, universe.clone());
	d.model = exp;
	d.open(false).map_err(|f| Fail::new(&f.kind, format!("opening the migrated database: {}", f.msg)))?;
	let r = (|| -> Result<(), Fail> {
		d.check().map_err(|f| Fail::new(&f.kind, format!("migrated database: {}", f.msg)))?;
		// hash columns: value iteration shows exactly the migrated entries
		if let Ok(()) = Ok::<(), ()>(()) {
			let mut n = 0u64;
			d.db().iter_column_while(0, |_| {
				n += 1;
				true
			}).map_err(|e| Fail::new("error", format!("iter_column_while failed: {}", e)))?;
			let expect = match &d.model.cols[0] {
				ColModel::Kv(m) => m.len() as u64,
				ColModel::Rc(m) => m.len() as u64,
				_ => 0,
			};
			if n != expect {
				return Err(Fail::new("mismatch", format!("migrated column holds {} values, the source held {}", n, expect)))
			}
		}
		if c.extra >= 2 {
			// the unselected multitree column still knows that K1's child is shared: dropping K2 must not free it
			d.commit(&vec![(2u8, Op::DerefTree(rk(2)))])?;
			d.drain()?;
			d.check().map_err(|f| Fail::new(&f.kind, format!("after dereferencing one of two trees that share a node in the unselected multitree column: {}", f.msg)))?;
		}
		Ok(())
	})();
	let _ = d.close();
	r?;
	if !c.overwrite {
		// the source still holds its content
		let mut s = Exec::detached(&from, &src_cfg, universe);
		s.model = src_model;
		s.open(false).map_err(|f| Fail::new(&f.kind, format!("reopening the source: {}", f.msg)))?;
		let r = s.check().map_err(|f| Fail::new(&f.kind, format!("source after migration: {}", f.msg)));
		let _ = s.close();
		r?;
	}
	Ok(())
}

fn cases(tier: &str) -> Vec<Case> {
	let mut v = vec![];
	let vs = variants();
	for src in vs.iter() {
		for dst in vs.iter() {
			let differ = src != dst;
			for forced in [false, true] {
				if !differ && !forced {
					continue // nothing selected: covered by the unselected-column checks
				}
				for overwrite in [false, true] {
					for content in 0..4u8 {
						for extra in [0u8, 2] {
							let full = tier == "thorough";
							// quick: a covering subset
							if !full && ((content + extra + forced as u8 + overwrite as u8 + src.compression + dst.compression) % 3 != 0) {
								continue
							}
							// destination salt: the source's in most cases; none / another one in a rotating third each
							let dst_salt = if full { 3 } else { (content + extra + overwrite as u8 + src.compression * 2 + dst.compression + src.preimage as u8) % 3 };
							for ds in 0..3u8 {
								if dst_salt == 3 || ds == dst_salt {
									v.push(Case { src: src.clone(), dst: dst.clone(), content, extra, forced, overwrite, dst_salt: ds, uniform: false });
								}
							}
						}
					}
				}
			}
		}
	}
	// several migration batches
	let rc = ColSpec::rc();
	let rc_lz4 = ColSpec { compression: 1, ..ColSpec::rc() };
	v.push(Case { src: rc.clone(), dst: rc_lz4.clone(), content: 4, extra: 0, forced: false, overwrite: false, dst_salt: 0, uniform: false });
	// a source index page with a hole in front of live entries (uniform keys)
	let uni = ColSpec { uniform: true, ..ColSpec::hash() };
	let uni_lz4 = ColSpec { uniform: true, compression: 1, ..ColSpec::hash() };
	for overwrite in [false, true] {
		v.push(Case { src: uni.clone(), dst: uni_lz4.clone(), content: 5, extra: 0, forced: false, overwrite, dst_salt: 0, uniform: true });
		v.push(Case { src: uni.clone(), dst: uni.clone(), content: 5, extra: 2, forced: true, overwrite, dst_salt: 1, uniform: true });
	}
	if tier == "thorough" {
		v.push(Case { src: rc_lz4.clone(), dst: ColSpec::hash(), content: 4, extra: 2, forced: false, overwrite: true, dst_salt: 0, uniform: false });
		v.push(Case { src: ColSpec::hash(), dst: rc, content: 4, extra: 0, forced: true, overwrite: false, dst_salt: 0, uniform: false });
	}
	v
}

pub fn run(tier: &str) -> ! {
	let mut run = Run::new("C20", tier, "exploration");
	let cs = cases(tier);
	// migrate() runs the library's real background threads: fewer workers than cores
	let items = par_map(cs.len(), (nthreads() / 2).max(1), "c20", |i| {
		let r = crate::interpose::fresh_thread(|| run_case(&cs[i]));
		match r {
			Ok(()) => (b"{}".to_vec(), false),
			Err(f) => (serde_json::to_vec(&json!({"kind": f.kind, "msg": f.msg})).unwrap(), false),
		}
	});
	let mut ok = 0u64;
	let mut reported: BTreeMap<String, ()> = BTreeMap::new();
	for (i, it) in items.into_iter().enumerate() {
		let c = &cs[i];
		let describe = format!("source {} -> destination {}, content set {}, {} unselected columns, {} selection, overwrite={}, destination salt {}", c.src.short(), c.dst.short(), c.content, c.extra, if c.forced { "forced" } else { "automatic" }, c.overwrite, ["as the source's", "not given", "another one"][c.dst_salt as usize % 3]);
		match it {
			Item::Done(b) => {
				let j: serde_json::Value = serde_json::from_slice(&b).unwrap();
				if let Some(m) = j.get("msg").and_then(|m| m.as_str()) {
					let kind = j["kind"].as_str().unwrap_or("");
					let key = format!("{}:{}", kind, m.chars().take(60).collect::<String>());
					if reported.insert(key, ()).is_none() {
						let msg = format!("{}: {}: {}", describe, kind, m);
						run.violation(json!({"property": "C20", "engine": "migrate", "case": format!("{:?}", c), "message": msg}), &msg);
					}
				} else {
					ok += 1;
				}
			},
			Item::Crashed(w) => {
				let msg = format!("{}: process died: {}", describe, w);
				run.violation(json!({"property": "C20", "engine": "migrate", "message": msg}), &msg)
			},
			Item::NotRun => (),
		}
	}
	cleanup_scratch();
	run.set("evaluations", json!(cs.len() as u64));
	run.set("distinct_nontrivial", json!(ok));
	run.set("rule", json!(format!("{} of the product: source options x destination options over {{plain, preimage, ref-counted}} x {{none, lz4, snappy}} (hashed keys) x {{automatic, forced}} selection x overwrite {{false, true}} x content sets {{empty; 3 small; three size classes + a 40 kB chained value + a 1-byte value; reference counts 1..3}} x destination salt {{the source's, none, another one}} (plus a uniform-key source whose index page has a hole in front of two live entries; plus 3500 keys with count 3 = more than one 10240-operation migration batch, for selected option pairs) x {{no other column; an unselected btree column and an unselected multitree column holding two trees that share a node}}. After migrate returns: the result (destination, or the source directory when overwriting) opened with the destination options returns every source key with its value (and count where the destination counts), value iteration shows no extra entry, the unselected columns read back equal (trees walked) and dereferencing one of the two sharing trees keeps the shared node; without overwrite the source still holds its content", if tier == "thorough" { "all".to_string() } else { "a covering third".to_string() })));
	run.sample(json!({"source": "hash+preimage+rc+lz4", "destination": "hash", "content": "counts 1..3", "selection": "automatic", "overwrite": false}));
	run.assumptions = vec![
		"migrate() opens both databases with real background threads: only outcomes after it has returned (handles dropped) are judged".into(),
		"sources with a reindex in progress are not covered (outcome would depend on OS scheduling)".into(),
	];
	run.finish()
}
