//! C11 (sequential part) — a locked tree reader is never invalidated, and deferral keeps commit order.
//! Lock / unlock of the reader are events of the history; the threaded part lives in the loom engine.

use crate::core::*;
use crate::props::c10::rk;
use crate::report::*;
use crate::search::*;
use serde_json::json;
use std::sync::Arc;

fn hk(i: u32) -> B {
	B::pat(5, 1500 + i)
}
fn hv(i: u32) -> B {
	B::pat(12 + 30 * (i % 2), 1600 + i)
}

fn t1_shape() -> NodeSpec {
	NodeSpec {
		data: B::pat(9, 1),
		children: vec![
			ChildSpec::New(NodeSpec { data: B::pat(40, 2), children: vec![ChildSpec::New(NodeSpec::leaf(B::pat(3, 3)))] }),
			ChildSpec::New(NodeSpec::leaf(B::pat(5, 4))),
		],
	}
}

fn alphabet(size: u8) -> Vec<Tx> {
	let mut a = vec![
		// dereference combined with writes to a hash and a btree column
		vec![(0, Op::DerefTree(rk(1))), (1, Op::Set(hk(1), hv(1))), (2, Op::Set(hk(1), hv(1)))],
		// a later transaction writing the same keys
		vec![(1, Op::Set(hk(1), hv(2))), (2, Op::Set(hk(1), hv(2)))],
		// a tree inserted meanwhile that reuses a node of the locked tree
		vec![(0, Op::InsertTree(rk(2), NodeSpec { data: B::pat(6, 5), children: vec![ChildSpec::Existing(rk(1), vec![0])] }))],
	];
	if size == 9 {
		// one transaction that inserts a tree reusing a node of K1 and dereferences K1; then the new tree is dropped
		// (possibly before the postponed part of the first transaction has run)
		return vec![
			vec![(0, Op::InsertTree(rk(2), NodeSpec { data: B::pat(6, 5), children: vec![ChildSpec::Existing(rk(1), vec![0])] })), (0, Op::DerefTree(rk(1))), (2, Op::Set(hk(1), hv(1)))],
			vec![(0, Op::DerefTree(rk(2)))],
			vec![(2, Op::Set(hk(1), hv(2)))],
		]
	}
	if size == 6 {
		// reference-counted roots: the commit that dereferences the locked tree also references another tree (a
		// root-level operation); that tree then needs two dereferences to go
		return vec![
			vec![(0, Op::RefTree(rk(2))), (0, Op::DerefTree(rk(1)))],
			vec![(0, Op::DerefTree(rk(2)))],
			vec![(0, Op::DerefTree(rk(2))), (2, Op::Set(hk(1), hv(2)))],
		]
	}
	if size == 7 {
		// a commit that, besides the dereference of the locked tree, holds only root-level operations (a tree that
		// is a single leaf root has no node changes): nothing of it may be lost when the dereference is postponed
		return vec![
			vec![(0, Op::InsertTree(rk(3), NodeSpec::leaf(B::pat(11, 9)))), (0, Op::DerefTree(rk(1)))],
			vec![(0, Op::DerefTree(rk(3)))],
			vec![(2, Op::Set(hk(1), hv(2)))],
		]
	}
	if size == 8 {
		// the new tree names nodes of K1 only below a new inner node (depth 2 and 3), none directly under its root
		a[2] = vec![(0, Op::InsertTree(rk(2), NodeSpec {
			data: B::pat(6, 5),
			children: vec![
				ChildSpec::New(NodeSpec { data: B::pat(7, 6), children: vec![ChildSpec::Existing(rk(1), vec![0]), ChildSpec::New(NodeSpec { data: B::pat(4, 7), children: vec![ChildSpec::Existing(rk(1), vec![1])] })] }),
				ChildSpec::New(NodeSpec::leaf(B::pat(3, 8))),
			],
		}))];
		a.push(vec![(0, Op::DerefTree(rk(2)))]);
		return a
	}
	if size >= 1 {
		a.push(vec![(0, Op::DerefTree(rk(2)))]);
		a.push(vec![(2, Op::Del(hk(1))), (1, Op::Del(hk(1)))]);
	}
	a
}

fn scenario(name: &str, size: u8, n: usize, x: usize, three_cols: bool) -> Scenario {
	let tree_col = if size == 6 { crate::props::c10::tree_spec("rc-roots") } else { ColSpec::tree() };
	let cfg = if three_cols {
		Config::new(vec![tree_col, ColSpec::hash(), ColSpec::btree()])
	} else {
		Config::new(vec![tree_col, ColSpec::btree()])
	};
	let mut alpha = alphabet(size);
	if !three_cols {
		// two-column variant: the btree column is column 1, the hash column is dropped
		for tx in alpha.iter_mut() {
			tx.retain(|(c, _)| *c != 1);
			for (c, _) in tx.iter_mut() {
				if *c == 2 {
					*c = 1;
				}
			}
		}
	}
	let mut init_tx: Tx = vec![(0, Op::InsertTree(rk(1), t1_shape()))];
	if size == 6 {
		init_tx.push((0, Op::InsertTree(rk(2), NodeSpec { data: B::pat(6, 5), children: vec![ChildSpec::New(NodeSpec::leaf(B::pat(8, 6)))] })));
	}
	let mut all = alpha.clone();
	all.push(init_tx.clone());
	let mut s = Scenario::new(name, cfg.clone(), alpha);
	s.universe = universe_of(&cfg, &all, &[]);
	s.init = vec![Ev::Commit(init_tx.clone()), Ev::Drain];
	s.max_commits = n;
	s.max_rejects = 0;
	s.max_reopen = x;
	s.pm = false; // deferral re-queues a commit: outside the pipeline model
	s.stages = vec![St::P, St::F, St::E, St::K]; // no index growth in these histories
	s.extra = Some(Arc::new(|hist: &[Ev]| {
		let locked = hist.iter().rev().find_map(|e| match e {
			Ev::Lock(..) => Some(true),
			Ev::Unlock(..) | Ev::Reopen => Some(false),
			_ => None,
		}).unwrap_or(false);
		let locks = hist.iter().filter(|e| matches!(e, Ev::Lock(..))).count();
		if locked {
			vec![Ev::Unlock(0, rk(1))]
		} else if locks < 1 {
			vec![Ev::Lock(0, rk(1))]
		} else {
			vec![]
		}
	}));
	let tf = crate::props::c10::tree_filter(size == 6, false);
	let init2 = s.init.clone();
	s.filter = Some(Arc::new(move |hist: &[Ev], ev: &Ev| {
		// every P while the lock is held re-queues the postponed dereference under a fresh id (a new state each
		// time, differing only in ids): bound the number of P events per locked period
		if matches!(ev, Ev::Stage(St::P)) {
			if let Some(p) = hist.iter().rposition(|e| matches!(e, Ev::Lock(..))) {
				let still = !hist[p..].iter().any(|e| matches!(e, Ev::Unlock(..) | Ev::Reopen));
				if still && hist[p..].iter().filter(|e| matches!(e, Ev::Stage(St::P))).count() >= 3 {
					return false
				}
			}
		}
		let mut h = init2.clone();
		h.extend(hist.iter().cloned());
		tf(&h, ev)
	}));
	s
}

pub fn scenarios(tier: &str) -> Vec<Scenario> {
	if tier == "thorough" {
		vec![scenario("lock/3col-n3", 1, 3, 1, true), scenario("lock/2col-n4-small", 0, 4, 1, false), scenario("lock/2col-n3-insert+deref-in-one-transaction", 9, 3, 1, false), scenario("lock/2col-n3-reuse-below-a-new-inner-node", 8, 3, 1, false), scenario("lock/2col-n3-leaf-root-inserted-with-the-dereference", 7, 3, 1, false), scenario("lock/2col-n3-counted-roots-reference-with-the-dereference", 6, 3, 1, false)]
	} else {
		vec![scenario("lock/2col-n2-leaf-root-inserted-with-the-dereference", 7, 2, 0, false), scenario("lock/2col-n2-counted-roots-reference-with-the-dereference", 6, 2, 0, false), scenario("lock/2col-n2-insert+deref-in-one-transaction", 9, 2, 0, false), scenario("lock/2col-n2-reuse-below-a-new-inner-node", 8, 2, 0, false), scenario("lock/3col-n2", 0, 2, 0, true), scenario("lock/2col-n2", 0, 2, 1, false)]
	}
}

pub fn run(tier: &str) -> ! {
	let mut run = Run::new("C11", tier, "model_checking");
	let budget = Budget::new(if tier == "thorough" { 1500.0 } else { 150.0 });
	run.set("rule", json!("graph search from a state with one live tree K1: events lock(K1) / unlock(K1) (take / release the TreeReader read lock), commits from {DereferenceTree(K1) + writes to a hash and a btree column; a later transaction writing the same keys; InsertTree(K2) reusing a node of K1; DereferenceTree(K2); removals}, all five stage events, reopen. Oracle: while the lock is held the tree read through the reader equals the snapshot taken at lock time; every column always agrees with the model that applies transactions in commit-return order (so a deferred removal changes nothing else); after unlock the removal completes (root unreadable once all commits are logged, entry count = model)"));
	run.assumptions = vec!["single-threaded: lock/unlock are events; thread interleavings of the same actors are explored by the loom engine".into()];
	super::run_scenarios(&mut run, &scenarios(tier), &budget);
	run.finish()
}
