//! C04 — btree columns: ordered map + bidirectional iterator, at every pipeline stage.

use crate::core::*;
use crate::report::*;
use crate::search::*;
use serde_json::json;
use std::sync::Arc;

fn k(i: usize) -> B {
	match i {
		0 => B::lit(b""),
		1 => B::lit(b"a"),
		2 => B::lit(b"a\0"),
		3 => B::pat(254, 11),
		4 => B::pat(255, 12),
		_ => B::pat(256, 13),
	}
}

fn v(i: u32) -> B {
	match i {
		0 => B::pat(3, 1),
		1 => B::pat(50, 2),
		_ => B::pat(5000, 3),
	}
}

pub fn alphabet(size: u8) -> Vec<Tx> {
	let mut a: Vec<Tx> = vec![
		vec![(0, Op::Set(k(1), v(0))), (0, Op::Set(k(4), v(1)))],
		vec![(0, Op::Del(k(1)))],
		vec![(0, Op::Set(k(0), v(1))), (0, Op::Set(k(2), v(0)))],
	];
	if size >= 1 {
		a.push(vec![(0, Op::Set(k(3), v(0))), (0, Op::Set(k(5), v(2))), (0, Op::Del(k(4)))]);
		a.push(vec![(0, Op::Set(k(1), v(1)))]);
	}
	if size >= 2 {
		a.push(vec![(0, Op::Set(k(2), v(1))), (0, Op::Del(k(2))), (0, Op::Set(k(2), v(2)))]);
		a.push(vec![(0, Op::Del(k(0))), (0, Op::Del(k(5)))]);
	}
	a
}

/// Iterator-call generator: after at least one commit an iterator may be opened once; then up to `l` calls.
fn it_extra(l: usize, probes: Vec<B>) -> Arc<ExtraFn> {
	Arc::new(move |hist: &[Ev]| {
		let open_at = hist.iter().position(|e| matches!(e, Ev::It(ItCall::Open(_))));
		match open_at {
			None =>
				if hist.iter().any(|e| matches!(e, Ev::Commit(_))) {
					vec![Ev::It(ItCall::Open(0))]
				} else {
					vec![]
				},
			Some(p) => {
				let calls = hist[p + 1..].iter().filter(|e| matches!(e, Ev::It(_))).count();
				if calls >= l {
					return vec![]
				}
				let mut v = vec![Ev::It(ItCall::Next), Ev::It(ItCall::Prev), Ev::It(ItCall::First), Ev::It(ItCall::Last)];
				for k in probes.iter() {
					v.push(Ev::It(ItCall::Seek(k.clone())));
				}
				v
			},
		}
	})
}

/// While an iterator is open at most `m` mutating events (commit / stage) and no reopen.
fn it_filter(m: usize) -> Arc<FilterFn> {
	Arc::new(move |hist: &[Ev], ev: &Ev| {
		let open_at = hist.iter().position(|e| matches!(e, Ev::It(ItCall::Open(_))));
		match (open_at, ev) {
			(Some(_), Ev::Reopen) => false,
			(Some(p), Ev::Commit(_) | Ev::Stage(_)) =>
				hist[p + 1..].iter().filter(|e| matches!(e, Ev::Commit(_) | Ev::Stage(_))).count() < m,
			_ => true,
		}
	})
}

fn sem_scenario(name: &str, size: u8, n: usize, x: usize, l: usize, m: usize, probes: Vec<B>) -> Scenario {
	let cfg = Config::new(vec![ColSpec::btree()]);
	let alpha = alphabet(size);
	let more: Vec<(u8, B)> = (0..6).map(|i| (0u8, k(i))).collect();
	let mut s = Scenario::new(name, cfg.clone(), alpha.clone());
	s.universe = universe_of(&cfg, &alpha, &more);
	s.max_commits = n;
	s.max_reopen = x;
	s.extra = Some(it_extra(l, probes));
	s.filter = Some(it_filter(m));
	s
}

/// Structure search: macro-transactions over a 100-key universe, drained after every commit.
fn key100(i: u32) -> B {
	B::Hex(format!("k{:03}", i).into_bytes())
}

fn structure_scenario(name: &str, depth: usize, start: Vec<Ev>, singles: bool) -> Scenario {
	let cfg = Config::new(vec![ColSpec::btree()]);
	let mut alpha: Vec<Tx> = vec![];
	if singles {
		// single-key inserts / removes over 20 candidate keys spread over the universe
		for i in (0..100).step_by(5) {
			alpha.push(vec![(0, Op::Set(key100(i), B::pat(10, i)))]);
			alpha.push(vec![(0, Op::Del(key100(i)))]);
		}
	} else {
		let set = |r: Vec<u32>| -> Tx { r.into_iter().map(|i| (0u8, Op::Set(key100(i), B::pat(10 + i % 50, i)))).collect() };
		let del = |r: Vec<u32>| -> Tx { r.into_iter().map(|i| (0u8, Op::Del(key100(i)))).collect() };
		alpha.push(set((0..100).collect()));
		alpha.push(del((0..100).collect()));
		alpha.push(set((0..100).step_by(2).collect()));
		alpha.push(del((0..100).step_by(3).collect()));
		alpha.push(del((1..100).collect()));
		alpha.push(set((40..60).collect()));
		alpha.push(del((20..80).collect()));
		alpha.push(vec![(0, Op::Set(key100(50), B::pat(40000, 5)))]);
		alpha.push(vec![(0, Op::Del(key100(50)))]);
	}
	let more: Vec<(u8, B)> = (0..100).map(|i| (0u8, key100(i))).collect();
	let mut s = Scenario::new(name, cfg.clone(), alpha.clone());
	s.universe = universe_of(&cfg, &alpha, &more);
	s.max_commits = depth;
	s.max_reopen = 1;
	s.init = start;
	// every commit is followed by a drain: the only pipeline events are Drain and Reopen
	s.stages = vec![];
	s.drain_event = true;
	s.pm = false;
	s.filter = Some(Arc::new(|hist: &[Ev], ev: &Ev| match (hist.last(), ev) {
		(Some(Ev::Commit(_)), Ev::Drain) => true,
		(Some(Ev::Commit(_)), _) => false,
		(_, Ev::Drain) => false,
		_ => true,
	}));
	s
}

fn prebuilt(n: u32) -> Vec<Ev> {
	let tx: Tx = (0..n).map(|i| (0u8, Op::Set(key100(i * (100 / n)), B::pat(12, i)))).collect();
	vec![Ev::Commit(tx), Ev::Drain]
}

pub fn scenarios(tier: &str) -> Vec<Scenario> {
	let probes_q = vec![k(1), B::lit(b"b"), k(0)];
	let probes_t = vec![k(1), B::lit(b"b"), k(0), k(4), B::pat(255, 99)];
	if tier == "thorough" {
		vec![
			sem_scenario("iter/n2-l5", 1, 2, 0, 5, 1, probes_t.clone()),
			sem_scenario("iter/n2-l4", 0, 2, 0, 4, 1, probes_q.clone()),
			sem_scenario("iter/n2-l3-x1", 1, 2, 1, 3, 1, probes_q.clone()),
			sem_scenario("iter/n3-l4", 1, 3, 0, 4, 1, probes_q.clone()),
			sem_scenario("iter/n2-l4-m2-x1", 2, 2, 1, 4, 2, probes_q.clone()),
			structure_scenario("structure/macro-d4", 4, vec![], false),
			structure_scenario("structure/from-depth2-singles-d4", 4, prebuilt(50), true),
			structure_scenario("structure/from-depth3-singles-d3", 3, prebuilt(100), true),
		]
	} else {
		vec![
			sem_scenario("iter/n2-l4", 0, 2, 0, 4, 1, vec![k(1), B::lit(b"b")]),
			sem_scenario("iter/n1-l4-x1", 1, 1, 1, 4, 1, probes_q),
			structure_scenario("structure/macro-d3", 3, vec![], false),
			structure_scenario("structure/from-depth2-singles-d2", 2, prebuilt(50), true),
		]
	}
}

pub fn run(tier: &str) -> ! {
	let mut run = Run::new("C04", tier, "model_checking");
	let budget = Budget::new(if tier == "thorough" { 1500.0 } else { 100.0 });
	run.set("rule", json!("graph search over histories of commits, pipeline-stage events, reopen and iterator calls (open, seek(k), seek_to_first, seek_to_last, next, prev) on a btree column; every iterator answer is compared with the position semantics evaluated on a BTreeMap model at the time of the call; point reads and full forward/backward scans after every event; state identity additionally includes the iterator's internal state"));
	run.assumptions = vec![
		"iterator call sequences bounded by l calls with at most m commits/stage events while the iterator is open (per scenario)".into(),
		"structure scenarios drain the pipeline after every commit (stage interleavings are the business of the iter/* scenarios)".into(),
	];
	super::run_scenarios(&mut run, &scenarios(tier), &budget);
	run.finish()
}
