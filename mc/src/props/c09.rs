//! C09 — index growth and hash-prefix collisions never change query results.
//! Uniform keys with the zero salt: the key bytes are the hash (instrumentation build), so index pages and
//! partial keys are chosen by the harness.

use crate::core::*;
use crate::crashmc::CrashCfg;
use crate::report::*;
use crate::search::*;
use serde_json::json;
use std::sync::Arc;

/// key landing in index page `c` (at 16 bits) whose third byte is `i`
pub fn page_key(c: u16, i: u8) -> B {
	let mut k = vec![0u8; 32];
	k[0] = (c >> 8) as u8;
	k[1] = c as u8;
	k[2] = i;
	for j in 3..32 {
		k[j] = (j as u8).wrapping_mul(7) ^ i;
	}
	B::Hex(k)
}

/// keys that agree on every bit the index stores (first 8 bytes) but differ in the stored key tail
pub fn chain_key(c: u16, t: u8) -> B {
	let mut k = vec![0u8; 32];
	k[0] = (c >> 8) as u8;
	k[1] = c as u8;
	k[2] = 0x7f;
	for j in 3..8 {
		k[j] = 0x11;
	}
	k[20] = t;
	B::Hex(k)
}

fn val(i: u32) -> B {
	B::pat(8 + (i % 5) * 20, 5000 + i)
}

const C: u16 = 0x1234;

pub fn fill_tx() -> Tx {
	(0..64u8).map(|i| (0u8, Op::Set(page_key(C, i), val(i as u32)))).collect()
}

pub fn alphabet(size: u8) -> Vec<Tx> {
	let mut a: Vec<Tx> = vec![
		// the 65th key of the page: the index grows
		vec![(0, Op::Set(page_key(C, 64), val(64)))],
		// remove / replace keys that still live in the old index
		vec![(0, Op::Del(page_key(C, 3))), (0, Op::Set(page_key(C, 5), val(105)))],
		// keys sharing the whole index-visible prefix (collision chain of length 3), one removed again
		vec![(0, Op::Set(chain_key(C, 1), val(201))), (0, Op::Set(chain_key(C, 2), val(202))), (0, Op::Set(chain_key(C, 3), val(203))), (0, Op::Del(chain_key(C, 2)))],
	];
	if size >= 1 {
		// one more key of the same half: overflows the page of the new (17-bit) index as soon as all 65 have moved:
		// growth triggered from a reindex batch
		a.push(vec![(0, Op::Set(page_key(C, 65), val(65))), (0, Op::Set(page_key(C, 66), val(66)))]);
		a.push(vec![(0, Op::Del(chain_key(C, 1))), (0, Op::Set(chain_key(C, 2), val(302)))]);
	}
	a
}

pub fn scenario(name: &str, size: u8, n: usize, x: usize, crash: Option<CrashCfg>) -> Scenario {
	let mut spec = ColSpec::hash();
	spec.uniform = true;
	let mut cfg = Config::new(vec![spec]);
	cfg.salt = 0;
	let mut alpha = alphabet(size.min(1));
	if size == 9 {
		alpha.truncate(1); // growth only
	}
	let mut all = alpha.clone();
	all.push(fill_tx());
	let mut s = Scenario::new(name, cfg.clone(), alpha);
	s.universe = universe_of(&cfg, &all, &[]);
	s.init = vec![Ev::Commit(fill_tx()), Ev::Drain];
	s.max_commits = n;
	s.max_rejects = 0;
	s.max_reopen = x;
	if let Some(mut c) = crash {
		c.suffix = Some(vec![(0, Op::Set(page_key(C, 70), val(70)))]);
		s.universe = universe_of(&cfg, &all, &[(0, page_key(C, 70))]);
		s.crash = Some(c);
	}
	// bound the reindex work: at most 6 R events per history (each R is one batch or the final drop)
	s.filter = Some(Arc::new(|hist: &[Ev], ev: &Ev| match ev {
		Ev::Stage(St::R) => hist.iter().filter(|e| matches!(e, Ev::Stage(St::R))).count() < 6,
		_ => true,
	}));
	s
}

const D: u16 = 0x4321;

/// Growth already started (new index current, nothing migrated yet); a chain member K1 sits in the OLD index.
/// Commits: more chain members (go to the new index), removal / replacement of K1, removal of a filler.
pub fn pending_scenario(name: &str, n: usize, x: usize) -> Scenario {
	let mut spec = ColSpec::hash();
	spec.uniform = true;
	let mut cfg = Config::new(vec![spec]);
	cfg.salt = 0;
	let mut fill = fill_tx();
	fill.push((0, Op::Set(chain_key(D, 1), val(401))));
	let over: Tx = vec![(0, Op::Set(page_key(C, 64), val(64)))];
	let alpha: Vec<Tx> = vec![
		vec![(0, Op::Set(chain_key(D, 2), val(402))), (0, Op::Set(chain_key(D, 3), val(403)))],
		vec![(0, Op::Del(chain_key(D, 1)))],
		vec![(0, Op::Set(chain_key(D, 1), val(501))), (0, Op::Del(page_key(C, 7)))],
	];
	let mut all = alpha.clone();
	all.push(fill.clone());
	all.push(over.clone());
	let mut s = Scenario::new(name, cfg.clone(), alpha);
	s.universe = universe_of(&cfg, &all, &[]);
	s.init = vec![Ev::Commit(fill), Ev::Drain, Ev::Commit(over), Ev::Stage(St::P), Ev::Stage(St::F), Ev::Stage(St::E)];
	s.max_commits = n;
	s.max_rejects = 0;
	s.max_reopen = x;
	s.pm = true;
	// commits are driven one at a time (commit, then P, F, E in that order before the next commit); reindex batches
	// (at most 3) may come between any two of these steps; log cleanup is left to reopen
	s.stages = vec![St::P, St::F, St::E, St::R];
	s.filter = Some(Arc::new(|hist: &[Ev], ev: &Ev| {
		let last_non_r = hist.iter().rev().find(|e| !matches!(e, Ev::Stage(St::R)));
		match ev {
			Ev::Stage(St::R) => hist.iter().filter(|e| matches!(e, Ev::Stage(St::R))).count() < 3,
			// two commits may be queued before the first is processed (then both are driven through P, F, E)
			Ev::Commit(_) => !matches!(last_non_r, Some(Ev::Stage(St::P)) | Some(Ev::Stage(St::F))),
			Ev::Stage(St::P) => matches!(last_non_r, Some(Ev::Commit(_)) | Some(Ev::Stage(St::P))),
			Ev::Stage(St::F) => matches!(last_non_r, Some(Ev::Stage(St::P))),
			Ev::Stage(St::E) => matches!(last_non_r, Some(Ev::Stage(St::F)) | Some(Ev::Stage(St::E))) && hist.iter().rev().take_while(|e| matches!(e, Ev::Stage(St::E) | Ev::Stage(St::R))).filter(|e| matches!(e, Ev::Stage(St::E))).count() < 2,
			_ => true,
		}
	}));
	s
}

/// key of page `c` whose hash bits 16..48 (the 32-bit lane the vectorised page search compares) are all zero;
/// `low` gives hash bits 48..56 (the partial key of a 16-bit index also holds bits 48 and 49)
pub fn lane_key(c: u16, low: u8) -> B {
	let mut k = vec![0u8; 32];
	k[0] = (c >> 8) as u8;
	k[1] = c as u8;
	k[6] = low;
	k[31] = low;
	B::Hex(k)
}

/// Keys at the edges of the page search: partial key zero, compared lane zero with a non-zero partial key
/// (two such keys: they agree in every bit the vectorised search compares), lane all ones; holes are made in
/// front of them by removing earlier entries. Every commit is drained; reopen anywhere.
fn lane_scenario(name: &str, n: usize, x: usize) -> Scenario {
	let mut spec = ColSpec::hash();
	spec.uniform = true;
	let mut cfg = Config::new(vec![spec]);
	cfg.salt = 0;
	let ones = {
		let mut k = vec![0xffu8; 32];
		k[0] = (C >> 8) as u8;
		k[1] = C as u8;
		B::Hex(k)
	};
	let a = page_key(C, 1);
	let alpha: Vec<Tx> = vec![
		vec![(0, Op::Set(a.clone(), val(1)))],
		vec![(0, Op::Set(lane_key(C, 0x40), val(2)))],
		vec![(0, Op::Set(lane_key(C, 0x80), val(3)))],
		vec![(0, Op::Set(lane_key(C, 0), val(4)))],
		vec![(0, Op::Del(a.clone()))],
		vec![(0, Op::Del(lane_key(C, 0x40)))],
		vec![(0, Op::Set(lane_key(C, 0x80), val(13)))],
		vec![(0, Op::Del(lane_key(C, 0x80)))],
		vec![(0, Op::Set(ones.clone(), val(5)))],
		vec![(0, Op::Del(lane_key(C, 0)))],
	];
	let mut s = Scenario::new(name, cfg.clone(), alpha.clone());
	s.universe = universe_of(&cfg, &alpha, &[]);
	s.max_commits = n;
	s.max_rejects = 0;
	s.max_reopen = x;
	s.stages = vec![];
	s.drain_event = true;
	s.pm = false;
	s.filter = Some(Arc::new(|hist: &[Ev], ev: &Ev| match (hist.last(), ev) {
		(Some(Ev::Commit(_)), Ev::Drain) => true,
		(Some(Ev::Commit(_)), _) => false,
		(_, Ev::Drain) => false,
		_ => true,
	}));
	s
}

const PA: u16 = 0x0100;
const PZ: u16 = 0xf000;

/// A growth that takes several batches (hook H10, batch size 1: a batch ends after the first non-empty page): two keys
/// in a page before the full one, two in a page behind it. The search starts when the growth has just been triggered
/// (new index current, nothing migrated). Batches: page PA; the full page; page PZ; the rest of the table + drop of the
/// old index. Commits write, replace and remove keys of pages that are already migrated, being migrated, and not yet
/// migrated, between any two batches and at any stage of the batch records.
pub fn multi_scenario(name: &str, n: usize, x: usize, max_r: usize, alpha_n: usize, crash: Option<CrashCfg>) -> Scenario {
	let mut spec = ColSpec::hash();
	spec.uniform = true;
	let mut cfg = Config::new(vec![spec]);
	cfg.salt = 0;
	cfg.reindex_batch = Some(1);
	let mut fill = fill_tx();
	fill.push((0, Op::Set(page_key(PA, 1), val(601))));
	fill.push((0, Op::Set(page_key(PA, 2), val(602))));
	fill.push((0, Op::Set(page_key(PZ, 1), val(611))));
	fill.push((0, Op::Set(page_key(PZ, 2), val(612))));
	let over: Tx = vec![(0, Op::Set(page_key(C, 64), val(64)))];
	let alpha: Vec<Tx> = vec![
		// replace a key of the first page, remove one of the last page, add one to the last page
		vec![(0, Op::Set(page_key(PA, 1), val(701))), (0, Op::Del(page_key(PZ, 1))), (0, Op::Set(page_key(PZ, 3), val(713)))],
		// remove a key of the first page, replace one of the last page and one of the full page
		vec![(0, Op::Del(page_key(PA, 2))), (0, Op::Set(page_key(PZ, 2), val(722))), (0, Op::Set(page_key(C, 9), val(729)))],
	];
	let mut all = alpha.clone();
	all.push(fill.clone());
	all.push(over.clone());
	let mut alpha = alpha;
	alpha.truncate(alpha_n);
	let mut s = Scenario::new(name, cfg.clone(), alpha);
	s.universe = universe_of(&cfg, &all, &[]);
	s.init = vec![Ev::Commit(fill), Ev::Drain, Ev::Commit(over), Ev::Stage(St::P), Ev::Stage(St::F), Ev::Stage(St::E)];
	s.max_commits = n;
	s.max_rejects = 0;
	s.max_reopen = x;
	s.stages = vec![St::P, St::F, St::E, St::R];
	if let Some(mut c) = crash {
		c.suffix = Some(vec![(0, Op::Set(page_key(C, 70), val(70))), (0, Op::Set(page_key(PA, 1), val(771)))]);
		s.universe = universe_of(&cfg, &all, &[(0, page_key(C, 70))]);
		s.crash = Some(c);
	}
	s.filter = Some(Arc::new(move |hist: &[Ev], ev: &Ev| match ev {
		Ev::Stage(St::R) => hist.iter().filter(|e| matches!(e, Ev::Stage(St::R))).count() < max_r,
		_ => true,
	}));
	s
}

/// Growth in progress (the 64 keys of the full page still live in the old index) while the page of the NEW index that
/// they will move to fills up with 64 later keys; then a key that still lives in the old index is replaced by a value of
/// another size class (its index entry has to be re-inserted into the new index, whose page is full), or removed.
pub fn full_new_page_scenario(name: &str, n: usize, x: usize, max_r: usize) -> Scenario {
	let mut spec = ColSpec::hash();
	spec.uniform = true;
	let mut cfg = Config::new(vec![spec]);
	cfg.salt = 0;
	let over: Tx = vec![(0, Op::Set(page_key(C, 64), val(64)))];
	// 63 more keys of the same half of the page: together with key 64 they fill the page of the 17-bit index
	let more: Tx = (65..128u8).map(|i| (0u8, Op::Set(page_key(C, i), val(i as u32)))).collect();
	let alpha: Vec<Tx> = vec![
		more.clone(),
		// key 5 still lives in the old index: new value in another size class (8 -> 5000 bytes)
		vec![(0, Op::Set(page_key(C, 5), B::pat(5000, 905)))],
		vec![(0, Op::Del(page_key(C, 6))), (0, Op::Set(page_key(C, 7), B::pat(300, 907)))],
	];
	let mut all = alpha.clone();
	all.push(fill_tx());
	all.push(over.clone());
	let mut s = Scenario::new(name, cfg.clone(), alpha);
	s.universe = universe_of(&cfg, &all, &[]);
	s.init = vec![Ev::Commit(fill_tx()), Ev::Drain, Ev::Commit(over), Ev::Stage(St::P), Ev::Stage(St::F), Ev::Stage(St::E)];
	s.max_commits = n;
	s.max_rejects = 0;
	s.max_reopen = x;
	s.stages = vec![St::P, St::F, St::E, St::R];
	// the i-th commit is the i-th transaction of the alphabet; at most `max_r` reindex events
	let a2 = s.alphabet.clone();
	s.filter = Some(Arc::new(move |hist: &[Ev], ev: &Ev| match ev {
		Ev::Stage(St::R) => hist.iter().filter(|e| matches!(e, Ev::Stage(St::R))).count() < max_r,
		Ev::Commit(tx) => {
			let k = hist.iter().filter(|e| matches!(e, Ev::Commit(_))).count();
			a2.get(k).map_or(false, |a| format!("{:?}", a) == format!("{:?}", tx))
		},
		_ => true,
	}));
	s
}

pub fn scenarios(tier: &str) -> Vec<Scenario> {
	if tier == "thorough" {
		vec![
			scenario("growth/n3", 1, 3, 1, None),
			pending_scenario("growth-pending/n3", 3, 1),
			scenario("growth/n2", 1, 2, 1, None),
			scenario("growth/n2-x2", 1, 2, 2, None),
			scenario("growth-crash/n2", 0, 2, 1, Some(CrashCfg { torn: 1, recovery_depth: 2, ..Default::default() })),
			scenario("growth-power-loss/n1", 0, 1, 0, Some(CrashCfg { torn: 0, recovery_depth: 1, power_loss: true, max_full_subsets: 8, ..Default::default() })),
			// (the scenarios added in rounds 4 and 5 come last, the largest one at the very end: the budget is shared)
			full_new_page_scenario("growth-pending/new-index-page-full/n3-in-order", 3, 1, 4),
			multi_scenario("growth-in-batches-crash/n1", 1, 0, 5, 2, Some(CrashCfg { torn: 0, recovery_depth: 1, ..Default::default() })),
			multi_scenario("growth-in-batches/n2", 2, 1, 5, 2, None),
		]
	} else {
		// (the growth-in-batches scenario comes last: it is the most expensive one and takes what is left of the budget)
		vec![lane_scenario("page-search-edges/n4", 4, 0), full_new_page_scenario("growth-pending/new-index-page-full/n2-in-order", 2, 0, 1), scenario("growth/n1", 1, 1, 1, None), pending_scenario("growth-pending/n2", 2, 0), scenario("growth-crash/n1-growth-only", 9, 1, 0, Some(CrashCfg { torn: 0, recovery_depth: 1, ..Default::default() })), multi_scenario("growth-in-batches/n1-one-transaction", 1, 1, 5, 1, None)]
	}
}

pub fn run(tier: &str) -> ! {
	let mut run = Run::new("C09", tier, "model_checking");
	let budget = Budget::new(if tier == "thorough" { 1500.0 } else { 150.0 });
	run.set("rule", json!("graph search from a state with one full 64-entry index page (uniform keys, zero salt = identity hashing): commits from {65th key of the page (growth to 17 bits), removal/replacement of keys still in the old index, a 3-key collision chain (equal in every index-visible bit) with one member removed, two more keys of the same half (second growth, triggered from a reindex batch), chain edits} (plus, in a scenario of its own, keys at the edges of the page search: partial key zero, compared 32-bit lane zero with non-zero partial key, lane all ones, with holes made in front of them) interleaved with every stage event incl. reindex batches (R) and reopen; after every event every key ever written is read and compared with the model. Crash scenarios: every file-operation boundary of every edge of the growth (creation of the new index file, batch records, DropTable, unlink of the old file) is a crash point with the C02 recovery oracle"));
	run.assumptions = vec!["identity hashing needs the zero salt of the instrumentation build".into(), "at most 6 reindex-batch events per history".into()];
	super::run_scenarios(&mut run, &scenarios(tier), &budget);
	run.finish()
}
