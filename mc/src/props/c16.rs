//! C16 — an I/O error stops the writer cleanly and never corrupts the database.

use crate::crashmc::CrashCfg;
use crate::props::c02::*;
use crate::report::*;
use crate::search::*;
use serde_json::json;

fn fault_scenario(name: &str, fam: (crate::core::Config, Vec<crate::core::Tx>, crate::core::Tx), n: usize, x: usize, tree: bool) -> Scenario {
	let mut s = scenario(name, fam, n, x, CrashCfg::default(), tree);
	s.crash = None;
	s.faults = true;
	s
}

/// one hash column; a key overwritten with another value (other size class) and a second key
pub fn overwrite_family() -> (crate::core::Config, Vec<crate::core::Tx>, crate::core::Tx) {
	use crate::core::*;
	let k = |i: u32| B::pat(6, 2100 + i);
	let cfg = Config::new(vec![ColSpec::hash()]);
	let alpha: Vec<Tx> = vec![vec![(0, Op::Set(k(1), B::pat(5, 1)))], vec![(0, Op::Set(k(2), B::pat(60, 2)))], vec![(0, Op::Set(k(2), B::pat(61, 3)))]];
	let suffix: Tx = vec![(0, Op::Set(k(9), B::pat(60, 9)))];
	(cfg, alpha, suffix)
}

/// index growth under failure: from a full index page, the commit of the 65th key is driven along one pipeline
/// order (P F E, then each reindex batch through R F E; cleanup + reopen after any enact) and every file operation of every one of these steps (creation of the new
/// index file, reindex batch records, DropTable, unlink of the old file) is a failure point (syscall injector: all of them; the crate's own injector, whose sites include every in-memory
/// read of the reindex scan: the first 10 (quick) or 48 (thorough) sites of each step)
fn growth_fault_scenario(name: &str, max_batches: usize) -> Scenario {
	use crate::core::*;
	use crate::props::c09::{fill_tx, page_key};
	let mut spec = ColSpec::hash();
	spec.uniform = true;
	let mut cfg = Config::new(vec![spec]);
	cfg.salt = 0;
	let over: Tx = vec![(0, Op::Set(page_key(0x1234, 64), B::pat(8, 5064)))];
	let all = vec![fill_tx(), over.clone()];
	let mut s = Scenario::new(name, cfg.clone(), vec![over]);
	s.universe = universe_of(&cfg, &all, &[]);
	s.init = vec![Ev::Commit(fill_tx()), Ev::Drain];
	s.max_commits = 1;
	s.max_rejects = 0;
	s.max_reopen = 1;
	s.check_iter_rc = false;
	s.faults = true;
	s.fault_site_cap = Some(if max_batches > 2 { 48 } else { 10 });
	// one pipeline order: commit P F E [E], then reindex batches each driven through (R F E), cleanup and reopen at
	// the end or after any enact
	s.filter = Some(std::sync::Arc::new(move |hist: &[Ev], ev: &Ev| {
		let rs = hist.iter().filter(|e| matches!(e, Ev::Stage(St::R))).count();
		match (hist.last(), ev) {
			(None, Ev::Commit(_)) => true,
			(Some(Ev::Commit(_)), Ev::Stage(St::P)) => true,
			(Some(Ev::Stage(St::P)), Ev::Stage(St::F)) => true,
			(Some(Ev::Stage(St::R)), Ev::Stage(St::F)) => true,
			(Some(Ev::Stage(St::F)), Ev::Stage(St::E)) => true,
			(Some(Ev::Stage(St::E)), Ev::Stage(St::E)) => true,
			(Some(Ev::Stage(St::E)), Ev::Stage(St::R)) => rs < max_batches,
			(Some(Ev::Stage(St::E)), Ev::Stage(St::K)) => true,
			(Some(Ev::Stage(St::K)), Ev::Reopen) => true,
			_ => false,
		}
	}));
	s
}

/// the i-th commit of a history is the i-th transaction of the alphabet (all stage interleavings stay)
pub fn ordered(mut s: Scenario) -> Scenario {
	use crate::core::Ev;
	let alpha = s.alphabet.clone();
	s.filter = Some(std::sync::Arc::new(move |hist: &[Ev], ev: &Ev| match ev {
		Ev::Commit(tx) => {
			let n = hist.iter().filter(|e| matches!(e, Ev::Commit(_))).count();
			alpha.get(n).map_or(false, |a| format!("{:?}", a) == format!("{:?}", tx))
		},
		_ => true,
	}));
	s
}

pub fn scenarios(tier: &str) -> Vec<Scenario> {
	if tier == "thorough" {
		vec![
			fault_scenario("faults/hash/n3", small_family(), 3, 1, false),
			fault_scenario("faults/hash+btree/n2", kv_family(), 2, 1, false),
			fault_scenario("faults/rc+tree/n2", rc_tree_family(), 2, 1, true),
			growth_fault_scenario("faults/index-growth/one-pipeline-order", 12),
		]
	} else {
		vec![fault_scenario("faults/hash/n2", small_family(), 2, 1, false), ordered(fault_scenario("faults/hash-overwrite/n3-in-order", overwrite_family(), 3, 0, false)), fault_scenario("faults/hash+btree/n1", kv_family(), 1, 1, false), fault_scenario("faults/rc+tree/n1", rc_tree_family(), 1, 1, true), growth_fault_scenario("faults/index-growth/one-pipeline-order-2-batches", 2)]
	}
}

pub fn run(tier: &str) -> ! {
	let mut run = Run::new("C16", tier, "fault_enumeration");
	let budget = Budget::new(if tier == "thorough" { 1500.0 } else { 150.0 });
	run.set("rule", json!("for every edge (state, event) of the graph search with event in {P, R, F, E, K, reopen} and for every j: the history is re-executed and every mutating file operation on a database file from the j-th of that event on fails with EIO (interposed open/creat, write, ftruncate, fsync, fdatasync, mmap, msync, unlink, rename), and separately the crate's own failure injector fails every I/O site from the j-th on (covers reads, seeks, metadata calls). Then: no panic; if the step returned an error it is stored as the worker would and the next commit is refused with the background error leaving no trace; all reads equal the committed state; drop with the fault still present terminates; after the fault is gone reopen succeeds and shows S_k with k >= commits synced before the failure; all reads agree with the model of S_k. j runs until the step completes without reaching the fault"));
	run.assumptions = vec!["without background threads (stepping mode); the threaded variant belongs to the loom engine".into(), "failures persist until restart, as the property's quantifier says".into()];
	let scns = scenarios(tier);
	let mut total = crate::faultmc::FaultStats::default();
	for scn in scns.iter() {
		let mut s = scn.clone();
		s.property = "C16".into();
		let t0 = std::time::Instant::now();
		let (st, found) = graph_search(&s, &budget);
		println!("  scenario {:<28} states={} edges={} fault-runs={} faults-reached={} errors-reported={} commits-refused={} reopened={} max-ops-in-a-step={} {:.1}s",
			s.name, st.states, st.transitions, st.faults.runs, st.faults.faults_hit, st.faults.errors_reported, st.faults.commits_refused, st.faults.reopened, st.faults.max_ops_in_step, t0.elapsed().as_secs_f64());
		total.merge(&st.faults);
		run.parts.push(json!({"scenario": s.name, "states": st.states, "edges": st.transitions, "fault_runs": st.faults.runs, "faults_reached": st.faults.faults_hit,
			"errors_reported_by_the_failing_call": st.faults.errors_reported, "later_commits_refused": st.faults.commits_refused, "reopened_after_fault": st.faults.reopened, "complete": st.complete}));
		if !st.complete {
			run.exhaustive = false;
		}
		if let Some(f) = found {
			let rendering = format!("scenario {} config {}\nhistory: {}\n{}: {}", f.scenario, f.cfg.short(), crate::core::hist_short(&f.history), f.fail.kind, f.fail.msg);
			if f.fail.kind == "machinery" || f.fail.kind == "model-divergence" {
				machinery_error(&rendering);
			}
			run.violation(found_to_json("C16", &f), &rendering);
		}
	}
	run.set("evaluations", json!(total.runs));
	run.set("distinct_nontrivial", json!(total.faults_hit));
	run.set("errors_reported", json!(total.errors_reported));
	run.set("commits_refused", json!(total.commits_refused));
	run.set("reopened_after_fault", json!(total.reopened));
	run.sample(json!({"history": "commit[k1:=v] P", "event": "F", "fault": "syscall #0 (fdatasync of log0) fails with EIO", "expected": "F returns Err; next commit refused; get(k1)=v; drop terminates; reopen shows S_0 or S_1"}));
	run.finish()
}
