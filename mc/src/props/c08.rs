//! C08 — a rejected transaction leaves no trace.

use crate::core::*;
use crate::report::*;
use crate::search::*;
use serde_json::json;
use std::sync::Arc;

fn k(i: u32) -> B {
	B::pat(6, 800 + i)
}
fn v(i: u32) -> B {
	B::pat(10 + 30 * (i % 3), 900 + i)
}

fn tree(data_seed: u32, nchildren: usize) -> NodeSpec {
	NodeSpec {
		data: B::pat(5, 700 + data_seed),
		children: (0..nchildren).map(|i| ChildSpec::New(NodeSpec::leaf(B::pat(4, 600 + data_seed * 300 + i as u32)))).collect(),
	}
}

/// Insert `bad` at every position of `base`.
fn with_invalid(base: &Tx, bad: &(u8, Op)) -> Vec<Tx> {
	(0..=base.len())
		.map(|i| {
			let mut t = base.clone();
			t.insert(i, bad.clone());
			t
		})
		.collect()
}

struct Family {
	name: &'static str,
	cfg: Config,
	valid: Vec<Tx>,
	invalid: Vec<Tx>,
}

fn families() -> Vec<Family> {
	let mut f = vec![];
	// A: plain hash + plain btree
	{
		let cfg = Config::new(vec![ColSpec::hash(), ColSpec::btree()]);
		let base: Tx = vec![(0, Op::Set(k(1), v(1))), (1, Op::Set(k(2), v(2))), (0, Op::Del(k(3)))];
		let valid = vec![
			vec![(0, Op::Set(k(1), v(4))), (1, Op::Set(k(1), v(5)))],
			vec![(0, Op::Set(k(3), v(3))), (1, Op::Del(k(2)))],
		];
		let mut invalid = vec![];
		for bad in [
			(0u8, Op::Ref(k(1))),
			(1u8, Op::Ref(k(2))),
			(0u8, Op::InsertTree(k(5), tree(1, 1))),
			(1u8, Op::DerefTree(k(1))),
			(0u8, Op::RefTree(k(1))),
		] {
			invalid.extend(with_invalid(&base, &bad));
		}
		f.push(Family { name: "hash+btree", cfg, valid, invalid });
	}
	// B: hash + multitree (direct access)
	{
		let cfg = Config::new(vec![ColSpec::hash(), ColSpec::tree()]);
		let base: Tx = vec![(0, Op::Set(k(1), v(1))), (1, Op::InsertTree(k(10), tree(2, 2))), (0, Op::Set(k(2), v(2)))];
		let valid = vec![
			vec![(1, Op::InsertTree(k(11), tree(3, 1))), (0, Op::Set(k(1), v(4)))],
			vec![(1, Op::DerefTree(k(11)))],
		];
		let mut invalid = vec![];
		for bad in [
			(1u8, Op::Set(k(1), v(1))),
			(1u8, Op::Del(k(11))),
			(1u8, Op::Ref(k(11))),
			(1u8, Op::DerefTree(k(12))), // missing root
			(1u8, Op::RefTree(k(10))),   // no counting on this column
			(1u8, Op::InsertTree(k(13), tree(4, 256))), // cannot be represented
			(0u8, Op::Ref(k(1))),
		] {
			invalid.extend(with_invalid(&base, &bad));
		}
		// a valid tree dereference followed by an invalid operation (queued-dereference counter)
		invalid.push(vec![(1, Op::DerefTree(k(11))), (0, Op::Ref(k(1)))]);
		invalid.push(vec![(1, Op::DerefTree(k(11))), (1, Op::DerefTree(k(12)))]);
		f.push(Family { name: "hash+multitree", cfg, valid, invalid });
	}
	// C: append-only multitree + ref-counted hash
	{
		let mut t = ColSpec::tree();
		t.append_only = true;
		let cfg = Config::new(vec![t, ColSpec::rc()]);
		let fv = |k: &B| B::pat(20, fnv(&k.bytes(), 5) as u32);
		let base: Tx = vec![(0, Op::InsertTree(k(20), tree(5, 1))), (1, Op::Set(k(1), fv(&k(1)))), (1, Op::Ref(k(1)))];
		let valid = vec![vec![(0, Op::InsertTree(k(21), tree(6, 2))), (1, Op::Set(k(2), fv(&k(2))))], vec![(0, Op::RefTree(k(21)))]];
		let mut invalid = vec![];
		for bad in [(0u8, Op::DerefTree(k(21))), (0u8, Op::Set(k(1), v(1))), (1u8, Op::InsertTree(k(22), tree(7, 0)))] {
			invalid.extend(with_invalid(&base, &bad));
		}
		f.push(Family { name: "append-only-tree+rc", cfg, valid, invalid });
	}
	// D: multitree + a column with BOTH btree_index and multitree set (valid options; the crate opens it as a btree
	// column): tree operations on it must be refused before anything of the transaction took effect
	{
		let both = ColSpec { btree: true, multitree: true, ..Default::default() };
		let cfg = Config::new(vec![ColSpec::tree(), both]);
		let base: Tx = vec![(0, Op::InsertTree(k(30), tree(8, 2))), (1, Op::Set(k(1), v(1))), (0, Op::InsertTree(k(31), tree(9, 1)))];
		let valid = vec![vec![(0, Op::InsertTree(k(32), tree(10, 1))), (1, Op::Set(k(2), v(2)))], vec![(0, Op::DerefTree(k(32))), (1, Op::Del(k(2)))]];
		let mut invalid = vec![];
		for bad in [(1u8, Op::InsertTree(k(33), tree(11, 2))), (1u8, Op::DerefTree(k(1))), (1u8, Op::RefTree(k(1))), (1u8, Op::Ref(k(1)))] {
			invalid.extend(with_invalid(&base, &bad));
		}
		f.push(Family { name: "multitree+btree-and-multitree-flags", cfg, valid, invalid });
	}
	f
}

fn scenario(fam: &Family, name: &str, invalid: Vec<Tx>, n: usize, x: usize, bg: bool) -> Scenario {
	let mut all = fam.valid.clone();
	all.extend(invalid.clone());
	let mut s = Scenario::new(&format!("{}/{}", fam.name, name), fam.cfg.clone(), fam.valid.clone());
	s.universe = universe_of(&fam.cfg, &all, &[]);
	// `get` / `get_size` are refused by the crate on any column that has the multitree flag, also when the column is
	// opened as a btree column (both flags): such a column is read through its iterator only
	if fam.cfg.cols.iter().any(|c| c.btree && c.multitree) {
		let mut u: Vec<Vec<Vec<u8>>> = (*s.universe).clone();
		for (i, c) in fam.cfg.cols.iter().enumerate() {
			if c.btree && c.multitree {
				u[i].clear();
			}
		}
		s.universe = Arc::new(u);
	}
	s.max_commits = n;
	s.max_rejects = 1;
	s.max_reopen = x;
	s.check_iter_rc = false; // the value-iteration clause belongs to C07
	// Invalid transactions are offered at EVERY state (whatever the number of accepted commits so far),
	// at most two per history; the background-error switch once per history, and then no reopen.
	let inv = invalid.clone();
	s.extra = Some(Arc::new(move |hist: &[Ev]| {
		let mut v = vec![];
		let used = hist.iter().filter(|e| matches!(e, Ev::Commit(tx) if inv.contains(tx))).count();
		if used < 2 {
			for tx in inv.iter() {
				v.push(Ev::Commit(tx.clone()));
			}
		}
		if bg && !hist.iter().any(|e| matches!(e, Ev::BgErr)) {
			v.push(Ev::BgErr);
		}
		v
	}));
	s.filter = Some(Arc::new(move |hist: &[Ev], ev: &Ev| match ev {
		Ev::Reopen => !hist.iter().any(|e| matches!(e, Ev::BgErr)),
		_ => true,
	}));
	s
}

pub fn scenarios(tier: &str) -> Vec<Scenario> {
	let mut v = vec![];
	for fam in families() {
		let inv = fam.invalid.clone();
		if tier == "thorough" {
			v.push(scenario(&fam, "n3", inv.clone(), 3, 1, false));
			v.push(scenario(&fam, "n2-bgerr", inv, 2, 0, true));
		} else {
			v.push(scenario(&fam, "n2", inv.clone(), 2, 1, false));
			v.push(scenario(&fam, "n1-bgerr", inv.into_iter().step_by(3).collect(), 1, 0, true));
		}
	}
	v
}

pub fn run(tier: &str) -> ! {
	let mut run = Run::new("C08", tier, "model_checking");
	let budget = Budget::new(if tier == "thorough" { 1500.0 } else { 100.0 });
	run.set("rule", json!("graph search in which every state offers, besides valid commits / stage events / reopen, every transaction of the invalid family (one invalid operation inserted at every position of a valid multi-column transaction; families: reference without counting, tree operation on a non-tree column and vice versa, dereference of a missing or append-only tree, unrepresentable node, commit in background-error state); oracle for a rejected commit: error returned, digest-without-commit-id and all file bytes identical before/after the call, and all reads keep agreeing with the model (which never saw the transaction) at every later state"));
	run.assumptions = vec![
		"a rejected commit may consume a commit id (not observable); everything else reachable from the handle must be unchanged".into(),
		"hash-map iteration order inside a transaction is pinned (getrandom interposed); the run is repeated under a second seed".into(),
	];
	let scns = scenarios(tier);
	for seed in [0x5au8, 0x3c] {
		crate::interpose::set_random_seed(seed);
		let named: Vec<Scenario> = scns
			.iter()
			// quick: the second hash-order seed only for the multi-column key-value family
			.filter(|s| tier == "thorough" || seed == 0x5a || s.name.starts_with("hash+btree/n2"))
			.map(|s| {
				let mut s = s.clone();
				s.name = format!("{}@seed{:02x}", s.name, seed);
				s
			})
			.collect();
		super::run_scenarios(&mut run, &named, &budget);
	}
	run.finish()
}
