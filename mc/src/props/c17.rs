//! C17 — column administration and option checks never touch other columns' data (E1 admin mode).

use crate::core::*;
use crate::exec::*;
use crate::par::{par_map, Item};
use crate::props::c10::rk;
use crate::report::*;
use crate::search::{cleanup_scratch, hash_dir, nthreads, universe_of, worker_dir};
use parity_db::{ColumnOptions, CompressionType, Db, Options};
use serde_json::json;
use std::collections::BTreeMap;
use std::path::Path;

fn all_options() -> Vec<ColumnOptions> {
	let mut v = vec![];
	for bits in 0..128u32 {
		for comp in [CompressionType::NoCompression, CompressionType::Lz4, CompressionType::Snappy] {
			v.push(ColumnOptions {
				preimage: bits & 1 != 0,
				uniform: bits & 2 != 0,
				ref_counted: bits & 4 != 0,
				compression: comp,
				btree_index: bits & 8 != 0,
				multitree: bits & 16 != 0,
				append_only: bits & 32 != 0,
				allow_direct_node_access: bits & 64 != 0,
			});
		}
	}
	v
}

fn listing(dir: &Path) -> BTreeMap<String, (u64, u64)> {
	let mut m = BTreeMap::new();
	if let Ok(rd) = std::fs::read_dir(dir) {
		for e in rd.filter_map(|e| e.ok()) {
			let n = e.file_name().to_string_lossy().into_owned();
			if n == "lock" {
				continue // the lock file is the mechanism of C18; creating it (empty) is tolerated
			}
			let data = std::fs::read(e.path()).unwrap_or_default();
			m.insert(n, (data.len() as u64, fnv(&data, 0xcbf29ce484222325)));
		}
	}
	m
}

/// 1. metadata round trip of every combination, in every column position 0..2
fn round_trip(run: &mut Run) -> u64 {
	let dir = worker_dir();
	let all = all_options();
	let mut n = 0;
	for (i, o) in all.iter().enumerate() {
		for pos in 0..3usize {
			wipe_dir(&dir);
			let mut opts = Options::with_columns(&dir, 3);
			opts.columns[pos] = o.clone();
			opts.columns[(pos + 1) % 3] = all[(i * 7 + 3) % all.len()].clone();
			let salt = [pos as u8 + 1; 32];
			let r = std::panic::catch_unwind(std::panic::AssertUnwindSafe(|| {
				opts.write_metadata(&dir, &salt).map_err(|e| e.to_string())?;
				Options::load_metadata(&dir).map_err(|e| e.to_string())
			}));
			n += 1;
			let bad = match r {
				Err(e) => Some(format!("panic: {}", panic_msg(e))),
				Ok(Err(e)) => Some(format!("error: {}", e)),
				Ok(Ok(None)) => Some("metadata not found after writing it".into()),
				Ok(Ok(Some(m))) =>
					if m.columns != opts.columns || m.salt != salt {
						Some(format!("read back {:?}", m.columns))
					} else {
						None
					},
			};
			if let Some(b) = bad {
				let msg = format!("metadata round trip of {:?} in column {}: {}", o, pos, b);
				run.violation(json!({"property": "C17", "engine": "admin", "message": msg}), &msg);
				return n
			}
		}
	}
	let _ = std::fs::remove_dir_all(&dir);
	n
}

fn kind_spec(k: u8) -> ColSpec {
	match k {
		0 => ColSpec::hash(),
		1 => ColSpec::btree(),
		2 => ColSpec::rc(),
		_ => ColSpec::tree(),
	}
}

fn content_tx(col: u8, kind: u8) -> Tx {
	let k = B::pat(6, 6100 + col as u32);
	match kind {
		0 | 1 => vec![(col, Op::Set(k.clone(), B::pat(30 + col as u32, 6200))), (col, Op::Set(B::pat(6, 6150 + col as u32), B::pat(5000, 6201)))],
		2 => {
			let v = B::pat(24, fnv(&k.bytes(), 3) as u32);
			vec![(col, Op::Set(k.clone(), v.clone())), (col, Op::Ref(k))]
		},
		_ => vec![(col, Op::InsertTree(rk(10 + col as u32), NodeSpec { data: B::pat(9, 1), children: vec![ChildSpec::New(NodeSpec::leaf(B::pat(4, 2))), ChildSpec::New(NodeSpec::leaf(B::pat(40, 3)))] }))],
	}
}

/// tree columns: a second tree naming a leaf of the first (that leaf's count lives in the column's ref-count table)
fn content_tx2(col: u8) -> Tx {
	vec![(col, Op::InsertTree(rk(20 + col as u32), NodeSpec { data: B::pat(7, 4), children: vec![ChildSpec::Existing(rk(10 + col as u32), vec![0])] }))]
}

/// valid single-field variations of a column's options (for the mismatch test)
fn variations(c: &ColSpec) -> Vec<ColSpec> {
	let mut v = vec![];
	let mut push = |x: ColSpec| {
		if x.options().is_valid() && x != *c {
			v.push(x)
		}
	};
	push(ColSpec { preimage: !c.preimage, ..c.clone() });
	push(ColSpec { uniform: !c.uniform, ..c.clone() });
	push(ColSpec { ref_counted: !c.ref_counted, preimage: true, ..c.clone() });
	push(ColSpec { compression: (c.compression + 1) % 3, ..c.clone() });
	push(ColSpec { btree: !c.btree, ..c.clone() });
	push(ColSpec { multitree: !c.multitree, compression: 0, ..c.clone() });
	push(ColSpec { append_only: !c.append_only, ref_counted: false, ..c.clone() });
	push(ColSpec { direct_access: !c.direct_access, ..c.clone() });
	v
}

#[derive(Clone, Debug)]
enum Admin {
	Add(u8),
	DropLast,
	Reset(u8, Option<u8>),
	Clear(u8),
	/// open with column `i` requested as its `j`-th variation: must fail and change nothing
	Mismatch(u8, usize),
	/// open with one column fewer / more: must fail and change nothing
	CountMismatch(bool),
}

#[derive(Clone, Debug)]
struct Case {
	layout: Vec<u8>,
	pending_logs: bool,
	op: Admin,
	/// the call is repeated with a persistent I/O failure from its n-th I/O site on, for every n
	faulted: bool,
}

fn build(dir: &Path, layout: &[u8], pending_logs: bool) -> Result<(Config, crate::model::Model, std::sync::Arc<Vec<Vec<Vec<u8>>>>), Fail> {
	let cfg = Config::new(layout.iter().map(|k| kind_spec(*k)).collect());
	let mut txs: Vec<Tx> = layout.iter().enumerate().map(|(i, k)| content_tx(i as u8, *k)).collect();
	txs.extend(layout.iter().enumerate().filter(|(_, k)| **k == 3).map(|(i, _)| content_tx2(i as u8)));
	let mut probe = vec![];
	for c in 0..4u8 {
		for t in [content_tx(c, 0), content_tx(c, 2), content_tx(c, 3), content_tx2(c)] {
			for (_, op) in t {
				probe.push((c, op.key().clone()));
			}
		}
	}
	let probe: Vec<(u8, B)> = probe.into_iter().filter(|(c, _)| (*c as usize) < layout.len()).collect();
	let universe = universe_of(&cfg, &txs, &probe);
	let mut ex = Exec::new(dir, &cfg, universe.clone())?;
	if pending_logs && !txs.is_empty() {
		// one commit goes all the way first: its cleaned log file stays behind, empty, as after any longer run
		ex.commit(&txs[0])?;
		ex.drain()?;
		for tx in txs.iter().skip(1) {
			ex.commit(tx)?;
		}
	} else {
		for tx in txs.iter() {
			ex.commit(tx)?;
		}
	}
	if pending_logs {
		// logged and synced, not applied: the directory as a crash would leave it
		while ex.digest().commit_queue_len > 0 {
			ex.apply(&Ev::Stage(St::P))?;
		}
		ex.apply(&Ev::Stage(St::F))?;
		let img = dir.with_extension("img");
		wipe_dir(&img);
		for e in std::fs::read_dir(dir).unwrap().filter_map(|e| e.ok()) {
			if e.file_name() != "lock" {
				// sparse-aware copy is not needed: files are small except the index, which is not created yet
				std::fs::copy(e.path(), img.join(e.file_name())).map_err(|e| Fail::new("machinery", e.to_string()))?;
			}
		}
		let model = ex.model.clone();
		ex.abandon();
		wipe_dir(dir);
		for e in std::fs::read_dir(&img).unwrap().filter_map(|e| e.ok()) {
			std::fs::rename(e.path(), dir.join(e.file_name())).unwrap();
		}
		let _ = std::fs::remove_dir_all(&img);
		return Ok((cfg, model, universe))
	}
	ex.drain()?;
	ex.check()?;
	let model = ex.model.clone();
	ex.close()?;
	Ok((cfg, model, universe))
}

fn empty_col(kind: crate::core::Kind) -> crate::model::ColModel {
	match kind {
		Kind::Kv => crate::model::ColModel::Kv(Default::default()),
		Kind::Rc => crate::model::ColModel::Rc(Default::default()),
		Kind::Tree => crate::model::ColModel::Tree(crate::model::TreeModel { next_id: 1, ..Default::default() }),
	}
}

fn run_case(case: &Case) -> Result<(), Fail> {
	let dir = worker_dir();
	let (cfg, model, _universe) = build(&dir, &case.layout, case.pending_logs)?;
	let mut opts = cfg.options(&dir);
	let before = listing(&dir);
	let before_hash = hash_dir(&dir);
	let e = |what: &str, e: parity_db::Error| Fail::new("error", format!("{} failed: {}", what, e));
	match &case.op {
		Admin::Mismatch(i, j) => {
			let var = variations(&cfg.cols[*i as usize]);
			let v = match var.get(*j) {
				Some(v) => v,
				None => return Ok(()),
			};
			opts.columns[*i as usize] = v.options();
			let r = std::panic::catch_unwind(std::panic::AssertUnwindSafe(|| Db::open(&opts).map(|_| ())));
			match r {
				Err(p) => return Err(Fail::new("panic", format!("open with mismatching options panicked: {}", panic_msg(p)))),
				Ok(Ok(())) => return Err(Fail::new("mismatch", format!("open succeeded although column {} was requested as {} but stored as {}", i, v.short(), cfg.cols[*i as usize].short()))),
				Ok(Err(_)) => (),
			}
			if listing(&dir) != before || hash_dir(&dir) != before_hash {
				return Err(Fail::new("mismatch", format!("a failed open (column {} requested as {}) modified database files: before {:?}, after {:?}", i, v.short(), before.keys().collect::<Vec<_>>(), listing(&dir).keys().collect::<Vec<_>>())))
			}
			return Ok(())
		},
		Admin::CountMismatch(more) => {
			if *more {
				opts.columns.push(ColSpec::hash().options());
			} else {
				opts.columns.pop();
			}
			let r = std::panic::catch_unwind(std::panic::AssertUnwindSafe(|| Db::open(&opts).map(|_| ())));
			match r {
				Err(p) => return Err(Fail::new("panic", format!("open with a wrong column count panicked: {}", panic_msg(p)))),
				Ok(Ok(())) => return Err(Fail::new("mismatch", "open succeeded with a wrong column count".into())),
				Ok(Err(_)) => (),
			}
			if listing(&dir) != before || hash_dir(&dir) != before_hash {
				return Err(Fail::new("mismatch", "a failed open (wrong column count) modified database files".into()))
			}
			return Ok(())
		},
		_ => (),
	}
	if case.faulted {
		return run_faulted(case, &dir, &cfg, &model)
	}
	perform(&dir, &mut opts, &case.op, case.pending_logs).map_err(|(w, x)| e(w, x))?;
	let (cols, mcols) = expected(&cfg, &model, &case.op);
	post_check(&dir, &cfg, case, cols, mcols, opts.columns.len())
}

/// The administration call under a persistent I/O failure from its n-th file operation on (interposed system calls:
/// creating open, write, truncate, sync, map, unlink, rename fail with EIO), for every n until the call completes. After a failed call and with the
/// fault gone: the stored metadata is the configuration before or after the call, nothing else; the database opens
/// with it; every other column holds exactly its content; the affected column is untouched or empty (after-state:
/// empty / gone / newly configured); the call can then be completed (when it had not taken effect) and everything
/// the unfaulted case checks holds - in particular a column added after a half-done drop starts empty.
fn run_faulted(case: &Case, dir: &Path, cfg0: &Config, model0: &crate::model::Model) -> Result<(), Fail> {
	let _ = (cfg0, model0);
	let mut n = 0usize;
	loop {
		let (cfg, model, universe) = build(dir, &case.layout, case.pending_logs)?;
		let mut opts = cfg.options(dir);
		let (cols_after, mcols_after) = expected(&cfg, &model, &case.op);
		if std::env::var("PDBMC_DEBUG").is_ok() {
			let live: Vec<String> = std::fs::read_dir("/proc/self/fd").unwrap().filter_map(|e| e.ok()).filter_map(|e| std::fs::read_link(e.path()).ok()).map(|p| p.to_string_lossy().into_owned()).filter(|p| p.contains("/lock") && !p.contains("deleted")).collect();
			eprintln!("n={} after build: live lock fds {:?}", n, live);
		}
		let what = format!("every file operation of the call from #{} on fails with EIO", n);
		crate::crash::start(dir);
		crate::crash::FAULT_AFTER.store(n as i64, std::sync::atomic::Ordering::SeqCst);
		let r = std::panic::catch_unwind(std::panic::AssertUnwindSafe(|| perform(dir, &mut opts, &case.op, case.pending_logs)));
		let reached = crate::crash::CALLS.load(std::sync::atomic::Ordering::SeqCst) > n as i64;
		crate::crash::FAULT_AFTER.store(-1, std::sync::atomic::Ordering::SeqCst);
		crate::crash::stop();
		let r = r.map_err(|p| Fail::new("panic", format!("{}: the call panicked: {}", what, panic_msg(p))))?;
		if r.is_ok() && reached {
			return Err(Fail::new("unreported", format!("{}: a file operation failed but the call returned Ok", what)))
		}
		if r.is_ok() {
			// the fault was not reached (or not on a path that matters): the unfaulted oracle, once more
			return post_check(dir, &cfg, case, cols_after, mcols_after, opts.columns.len()).map_err(|f| Fail::new(&f.kind, format!("{} (call returned Ok): {}", what, f.msg)))
		}
		// which configuration is stored?
		let meta = Options::load_metadata(dir).map_err(|e| Fail::new("error", format!("{}: metadata unreadable after the failed call: {}", what, e)))?;
		let meta = meta.ok_or_else(|| Fail::new("mismatch", format!("{}: metadata file gone after the failed call", what)))?;
		let before_opts: Vec<ColumnOptions> = cfg.cols.iter().map(|c| c.options()).collect();
		let after_opts: Vec<ColumnOptions> = cols_after.iter().map(|c| c.options()).collect();
		let took_effect = meta.columns == after_opts && after_opts != before_opts;
		if !took_effect && meta.columns != before_opts {
			return Err(Fail::new("mismatch", format!("{}: stored metadata is neither the configuration before the call nor the one after it: {:?}", what, meta.columns)))
		}
		let affected: Option<usize> = match &case.op {
			Admin::Add(_) => if took_effect { Some(cfg.cols.len()) } else { None },
			Admin::DropLast => if took_effect { None } else { Some(cfg.cols.len() - 1) },
			Admin::Reset(i, _) | Admin::Clear(i) => Some(*i as usize),
			_ => None,
		};
		let cols_now = if took_effect { cols_after.clone() } else { cfg.cols.clone() };
		// Every other column holds exactly its content. The affected column of an interrupted call may be in any
		// intermediate state (the property does not speak about it) and is not read here; once the call has been
		// completed below it must be as after an uninterrupted call.
		let base: Vec<crate::model::ColModel> = if took_effect { mcols_after.clone() } else { model.cols.clone() };
		let cfg_now = Config { cols: cols_now.clone(), ..cfg.clone() };
		let uni_now: std::sync::Arc<Vec<Vec<Vec<u8>>>> = {
			let mut u: Vec<Vec<Vec<u8>>> = (*universe).clone();
			u.resize(cols_now.len(), vec![]);
			std::sync::Arc::new(u)
		};
		{
			let mut ex = Exec::detached(dir, &cfg_now, uni_now.clone());
			ex.model = crate::model::Model { specs: cols_now.clone(), cols: base.clone(), locked: Default::default(), postponed: vec![] };
			ex.check_entries = false;
			if let Some(a) = affected {
				ex.skip_cols.push(a as u8);
			}
			if let Err(f) = ex.open(false) {
				return Err(Fail::new(&f.kind, format!("{}: the database does not open with the stored configuration (the one {} the call) after the failed call: {}", what, if took_effect { "after" } else { "before" }, f.msg)))
			}
			let r = ex.check();
			match &r {
				Err(f) if f.kind == "panic" => ex.abandon(),
				_ => {
					let _ = ex.close();
				},
			}
			r.map_err(|f| Fail::new(&f.kind, format!("{}: after the failed call (stored configuration: the one {} the call) a column the call was not about changed: {}", what, if took_effect { "after" } else { "before" }, f.msg)))?;
		}
		let now = base;
		// complete the call
		let (cols_f, mcols_f, ncols) = if took_effect {
			(cols_after, now, cols_now.len())
		} else {
			let mut o2 = cfg.options(dir);
			perform(dir, &mut o2, &case.op, false).map_err(|(w, x)| Fail::new("error", format!("{}: repeating the call after the fault is gone: {} failed: {}", what, w, x)))?;
			let m_now = crate::model::Model { specs: cfg.cols.clone(), cols: now, locked: Default::default(), postponed: vec![] };
			let (c, m) = expected(&cfg, &m_now, &case.op);
			(c, m, o2.columns.len())
		};
		if std::env::var("PDBMC_DEBUG").is_ok() {
			let live: Vec<String> = std::fs::read_dir("/proc/self/fd").unwrap().filter_map(|e| e.ok()).filter_map(|e| std::fs::read_link(e.path()).ok()).map(|p| p.to_string_lossy().into_owned()).filter(|p| p.contains("/lock") && !p.contains("deleted")).collect();
			eprintln!("n={} before post_check: live lock fds {:?}", n, live);
		}
		post_check(dir, &cfg, case, cols_f, mcols_f, ncols).map_err(|f| Fail::new(&f.kind, format!("{}, then the call completed: {}", what, f.msg)))?;
		if std::env::var("PDBMC_DEBUG").is_ok() {
			let live: Vec<String> = std::fs::read_dir("/proc/self/fd").unwrap().filter_map(|e| e.ok()).filter_map(|e| std::fs::read_link(e.path()).ok()).map(|p| p.to_string_lossy().into_owned()).filter(|p| p.contains("/lock") && !p.contains("deleted")).collect();
			eprintln!("n={} after post_check: live lock fds {:?}", n, live);
		}
		n += 1;
		if n > 1500 {
			return Err(Fail::new("machinery", "more than 1500 fault points in an administration call".into()))
		}
	}
}

/// the administration call itself
fn perform(dir: &Path, opts: &mut Options, op: &Admin, pending_logs: bool) -> Result<(), (&'static str, parity_db::Error)> {
	match op {
		Admin::Add(k) => Db::add_column(opts, kind_spec(*k).options()).map_err(|x| ("add_column", x)),
		Admin::DropLast => Db::drop_last_column(opts).map_err(|x| ("drop_last_column", x)),
		Admin::Reset(i, newk) => Db::reset_column(opts, *i, newk.map(|k| kind_spec(k).options())).map_err(|x| ("reset_column", x)),
		Admin::Clear(i) => {
			if pending_logs {
				// clear_column requires a closed database with no pending logs; replay them first, as the other
				// administration calls do themselves
				let db = Db::open(opts).map_err(|x| ("open before clear_column", x))?;
				drop(db);
			}
			parity_db::clear_column(dir, *i).map_err(|x| ("clear_column", x))
		},
		_ => Ok(()),
	}
}

/// configuration and content the call must leave behind
fn expected(cfg: &Config, model: &crate::model::Model, op: &Admin) -> (Vec<ColSpec>, Vec<crate::model::ColModel>) {
	let mut cols = cfg.cols.clone();
	let mut mcols = model.cols.clone();
	match op {
		Admin::Add(k) => {
			cols.push(kind_spec(*k));
			mcols.push(empty_col(kind_spec(*k).kind()));
		},
		Admin::DropLast => {
			cols.pop();
			mcols.pop();
		},
		Admin::Reset(i, newk) => {
			if let Some(k) = newk {
				cols[*i as usize] = kind_spec(*k);
			}
			mcols[*i as usize] = empty_col(cols[*i as usize].kind());
		},
		Admin::Clear(i) => {
			mcols[*i as usize] = empty_col(cols[*i as usize].kind());
		},
		_ => (),
	}
	(cols, mcols)
}

fn post_check(dir: &Path, cfg: &Config, case: &Case, cols: Vec<ColSpec>, mcols: Vec<crate::model::ColModel>, opts_columns: usize) -> Result<(), Fail> {
	let dir = dir.to_path_buf();
	// no file of a dropped / reset / cleared column is left behind (table, index and ref-count files carry the column id)
	let gone: Option<u8> = match &case.op {
		Admin::DropLast => Some(cfg.cols.len() as u8 - 1),
		Admin::Reset(i, _) | Admin::Clear(i) => Some(*i),
		_ => None,
	};
	if let Some(ci) = gone {
		let tag = format!("_{:02}_", ci);
		let left: Vec<String> = listing(&dir).keys().filter(|n| n.contains(&tag)).cloned().collect();
		if !left.is_empty() {
			return Err(Fail::new("mismatch", format!("files of column {} survive the call: {:?}", ci, left)))
		}
	}
	// a column added where one was dropped starts empty
	let (cols, mcols, opts_columns) = if matches!(case.op, Admin::DropLast) {
		let again = cfg.cols.last().unwrap().clone();
		let cfg_after = Config { cols: cols.clone(), ..cfg.clone() };
		let mut o = cfg_after.options(&dir);
		if o.columns.len() != opts_columns {
			return Err(Fail::new("mismatch", format!("options hold {} columns after the call, expected {}", opts_columns, cols.len())))
		}
		Db::add_column(&mut o, again.options()).map_err(|x| Fail::new("error", format!("add_column after drop_last_column failed: {}", x)))?;
		let mut c2 = cols.clone();
		let mut m2 = mcols.clone();
		m2.push(empty_col(again.kind()));
		c2.push(again);
		(c2, m2, o.columns.len())
	} else {
		(cols, mcols, opts_columns)
	};
	if opts_columns != cols.len() {
		return Err(Fail::new("mismatch", format!("options hold {} columns after the call, expected {}", opts_columns, cols.len())))
	}
	let cfg2 = Config { cols: cols.clone(), ..cfg.clone() };
	let mut txs: Vec<Tx> = cols.iter().enumerate().map(|(i, c)| content_tx(i as u8, if c.multitree { 3 } else if c.ref_counted { 2 } else if c.btree { 1 } else { 0 })).collect();
	txs.extend(cols.iter().enumerate().filter(|(_, c)| c.multitree).map(|(i, _)| content_tx2(i as u8)));
	let mut probe = vec![];
	for c in 0..cols.len() as u8 {
		for t in [content_tx(c, 0), content_tx(c, 2), content_tx(c, 3), content_tx2(c)] {
			for (_, op) in t {
				probe.push((c, op.key().clone()));
			}
		}
	}
	let universe2 = universe_of(&cfg2, &txs, &probe);
	let mut ex = Exec::detached(&dir, &cfg2, universe2);
	ex.model = crate::model::Model { specs: cols.clone(), cols: mcols, locked: Default::default(), postponed: vec![] };
	ex.open(false).map_err(|f| Fail::new(&f.kind, format!("open with the options the call left behind: {}", f.msg)))?;
	let r = (|| -> Result<(), Fail> {
		ex.check()?;
		// the affected / every column keeps working
		for tx in txs.iter() {
			// (a tree root already present must not be inserted again)
			let skip = tx.iter().any(|(c, op)| matches!(op, Op::InsertTree(k, _) if matches!(&ex.model.cols[*c as usize], crate::model::ColModel::Tree(t) if t.roots.contains_key(&k.bytes()))));
			if !skip {
				ex.commit(tx)?;
			}
		}
		ex.drain()?;
		ex.check()?;
		ex.apply(&Ev::Reopen)?;
		ex.check()?;
		// tree columns: dropping every tree again empties the column (a stale reference count would keep a node)
		for (ci, c) in cols.iter().enumerate() {
			if c.multitree {
				let roots: Vec<Vec<u8>> = match &ex.model.cols[ci] {
					crate::model::ColModel::Tree(t) => t.roots.keys().cloned().collect(),
					_ => vec![],
				};
				for r in roots {
					ex.commit(&vec![(ci as u8, Op::DerefTree(B::Hex(r)))])?;
					ex.drain()?;
				}
			}
		}
		ex.check()
	})();
	match &r {
		Err(f) if f.kind == "panic" => ex.abandon(),
		_ => {
			let _ = ex.close();
		},
	}
	r
}

fn cases(tier: &str) -> Vec<Case> {
	let mut v = vec![];
	let mut layouts: Vec<Vec<u8>> = vec![];
	for a in 0..4u8 {
		layouts.push(vec![a]);
		for b in 0..4u8 {
			layouts.push(vec![a, b]);
			if tier == "thorough" {
				for c in 0..4u8 {
					layouts.push(vec![a, b, c]);
				}
			}
		}
	}
	if tier != "thorough" {
		layouts.push(vec![0, 1, 3]);
		layouts.push(vec![3, 2, 1]);
		layouts.push(vec![1, 0, 2]);
	}
	for l in layouts {
		for pending in [false, true] {
			for k in 0..4u8 {
				v.push(Case { layout: l.clone(), pending_logs: pending, op: Admin::Add(k), faulted: false });
			}
			v.push(Case { layout: l.clone(), pending_logs: pending, op: Admin::DropLast, faulted: false });
			for i in 0..l.len() as u8 {
				v.push(Case { layout: l.clone(), pending_logs: pending, op: Admin::Reset(i, None), faulted: false });
				for k in 0..4u8 {
					v.push(Case { layout: l.clone(), pending_logs: pending, op: Admin::Reset(i, Some(k)), faulted: false });
				}
				v.push(Case { layout: l.clone(), pending_logs: pending, op: Admin::Clear(i), faulted: false });
				for j in 0..8 {
					v.push(Case { layout: l.clone(), pending_logs: pending, op: Admin::Mismatch(i, j), faulted: false });
				}
			}
			v.push(Case { layout: l.clone(), pending_logs: pending, op: Admin::CountMismatch(true), faulted: false });
			v.push(Case { layout: l.clone(), pending_logs: pending, op: Admin::CountMismatch(false), faulted: false });
		}
	}
	// the calls under an I/O failure at every site
	let fl: Vec<Vec<u8>> = if tier == "thorough" { vec![vec![0, 1, 3], vec![3, 2, 1], vec![1, 0, 2], vec![2, 3], vec![0]] } else { vec![vec![0, 1, 3], vec![3, 2]] };
	for l in fl {
		let last = l.len() as u8 - 1;
		for pending in [false, true] {
			for op in [Admin::Add(0), Admin::DropLast, Admin::Reset(last, None), Admin::Reset(0, Some(1)), Admin::Clear(last)] {
				v.push(Case { layout: l.clone(), pending_logs: pending, op, faulted: true });
			}
		}
	}
	v
}

pub fn run(tier: &str) -> ! {
	let mut run = Run::new("C17", tier, "exploration");
	let rt = round_trip(&mut run);
	// open of a missing database without create
	{
		let dir = worker_dir();
		let _ = std::fs::remove_dir_all(&dir);
		let parent = dir.parent().unwrap().to_path_buf();
		std::fs::create_dir_all(&parent).unwrap();
		let before: Vec<_> = std::fs::read_dir(&parent).unwrap().filter_map(|e| e.ok()).map(|e| e.file_name()).collect();
		let opts = Config::new(vec![ColSpec::hash()]).options(&dir);
		let r = Db::open(&opts);
		let after: Vec<_> = std::fs::read_dir(&parent).unwrap().filter_map(|e| e.ok()).map(|e| e.file_name()).collect();
		if r.is_ok() || before != after {
			let msg = format!("open of a missing database without create: ok={}, directory entries before {:?} after {:?}", r.is_ok(), before, after);
			run.violation(json!({"property": "C17", "engine": "admin", "message": msg}), &msg);
		}
	}
	let mut cs = cases(tier);
	if let Ok(f) = std::env::var("PDBMC_C17_ONLY") {
		cs.retain(|c| format!("{:?}", c).contains(&f));
	}
	let items = par_map(cs.len(), nthreads(), "c17", |i| {
		let r = crate::interpose::fresh_thread(|| run_case(&cs[i]));
		match r {
			Ok(()) => (b"{}".to_vec(), false),
			Err(f) => (serde_json::to_vec(&json!({"kind": f.kind, "msg": f.msg})).unwrap(), false),
		}
	});
	let mut ok = 0u64;
	let mut reported = std::collections::BTreeSet::new();
	for (i, it) in items.into_iter().enumerate() {
		let c = &cs[i];
		let describe = format!("layout {:?} ({}), {}{}: {:?}", c.layout.iter().map(|k| kind_spec(*k).short()).collect::<Vec<_>>(), c.layout.len(), if c.faulted { "with an I/O failure at every site of the call, " } else { "" }, if c.pending_logs { "unreplayed logs present" } else { "cleanly closed" }, c.op);
		match it {
			Item::Done(b) => {
				let j: serde_json::Value = serde_json::from_slice(&b).unwrap();
				if let Some(m) = j.get("msg").and_then(|m| m.as_str()) {
					let kind = j["kind"].as_str().unwrap_or("");
					if kind == "machinery" {
						machinery_error(&format!("{}: {}", describe, m));
					}
					let key = format!("{:?}{}", std::mem::discriminant(&c.op), kind);
					if reported.insert(key) {
						let msg = format!("{}: {}: {}", describe, kind, m);
						run.violation(json!({"property": "C17", "engine": "admin", "case": format!("{:?}", c), "message": msg}), &msg);
					}
				} else {
					ok += 1;
				}
			},
			Item::Crashed(why) => {
				let msg = format!("{}: process died: {}", describe, why);
				run.violation(json!({"property": "C17", "engine": "admin", "message": msg}), &msg)
			},
			Item::NotRun => (),
		}
	}
	cleanup_scratch();
	run.set("evaluations", json!(rt + cs.len() as u64 + 1));
	run.set("distinct_nontrivial", json!(rt + ok));
	run.set("metadata_round_trips", json!(rt));
	run.set("admin_and_mismatch_cases", json!(cs.len()));
	run.set("rule", json!("(1) all 2^7 x 3 = 384 ColumnOptions values, valid or not, in each of the column positions 0..2, written with write_metadata and read back with load_metadata: equal. (2) open of a missing path without create: error, nothing created. (3) for every layout of 1..2 (thorough: 1..3) columns over {hash, btree, ref-counted, multitree} plus three mixed 3-column layouts, with content in every column, both cleanly closed and with synced-but-unapplied logs in the directory: open with every valid single-field variation of every column's options and with a wrong column count fails and leaves the directory listing and every file byte unchanged (the lock file excepted); add_column (each kind), drop_last_column, reset_column (same options / each other kind), clear_column on every column: every other column's content equals the model, the affected column is empty / newly configured, the options the call leaves behind open the database, and every column accepts and keeps a further commit across a reopen"));
	run.sample(json!({"layout": ["hash", "multitree+direct"], "state": "unreplayed logs present", "call": "reset_column(0, Some(btree))", "expected": "column 1's tree intact, column 0 empty btree"}));
	run.sample(json!({"round_trip": "ColumnOptions{preimage, uniform, ref_counted, lz4, btree_index, multitree, append_only, allow_direct_node_access} = all true, column 2"}));
	run.assumptions = vec!["administration calls run with the stepping options (no background threads)".into()];
	run.finish()
}
