//! C10 — a committed tree reads back exactly; shared nodes live until unreferenced.

use crate::core::*;
use crate::report::*;
use crate::search::*;
use serde_json::json;
use std::collections::BTreeMap;
use std::sync::Arc;

pub fn rk(i: u32) -> B {
	B::pat(7, 1000 + i)
}

fn leaf(seed: u32, len: u32) -> NodeSpec {
	NodeSpec::leaf(B::pat(len, 2000 + seed))
}

fn node(seed: u32, len: u32, children: Vec<ChildSpec>) -> NodeSpec {
	NodeSpec { data: B::pat(len, 3000 + seed), children }
}

/// (root key index, shape name, spec, needs K1 live)
pub fn shapes(heavy: bool) -> Vec<(u32, &'static str, NodeSpec, bool)> {
	let mut v = vec![
		(1, "root+1", node(1, 40, vec![ChildSpec::New(leaf(1, 3))]), false),
		(1, "root+2,depth3", node(2, 3, vec![ChildSpec::New(node(3, 40, vec![ChildSpec::New(leaf(2, 3))])), ChildSpec::New(leaf(3, 40))]), false),
		(2, "leaf-root", node(4, 3, vec![]), false),
		(2, "shares-K1.0-twice", node(5, 10, vec![ChildSpec::Existing(rk(1), vec![0]), ChildSpec::Existing(rk(1), vec![0])]), true),
		(3, "new-child-with-existing-grandchild", node(6, 10, vec![ChildSpec::New(node(7, 5, vec![ChildSpec::Existing(rk(1), vec![0])]))]), true),
	];
	if heavy {
		v.push((3, "multipart-nodes", node(8, 5000, vec![ChildSpec::New(leaf(4, 40000)), ChildSpec::New(leaf(5, 3))]), false));
		v.push((2, "fanout-255", node(9, 3, (0..255).map(|i| ChildSpec::New(leaf(100 + i, 4))).collect()), false));
		v.push((2, "fanout-256", node(10, 3, (0..256).map(|i| ChildSpec::New(leaf(400 + i, 4))).collect()), false));
		v.push((3, "inner-fanout-256", node(11, 3, vec![ChildSpec::New(node(12, 3, (0..256).map(|i| ChildSpec::New(leaf(700 + i, 4))).collect()))]), false));
	}
	v
}

fn alphabet(heavy: bool, refs: bool, derefs: bool) -> Vec<Tx> {
	alphabet_v(heavy, refs, derefs, false)
}

fn alphabet_v(heavy: bool, refs: bool, derefs: bool, rc_roots: bool) -> Vec<Tx> {
	let mut a: Vec<Tx> = vec![];
	if rc_roots {
		// several count-changing operations on one root inside one transaction
		a.push(vec![(0, Op::RefTree(rk(1))), (0, Op::DerefTree(rk(1)))]);
		a.push(vec![(0, Op::DerefTree(rk(1))), (0, Op::DerefTree(rk(1)))]);
		a.push(vec![(0, Op::RefTree(rk(1))), (0, Op::RefTree(rk(1)))]);
	}
	for (k, _, spec, _) in shapes(heavy) {
		a.push(vec![(0, Op::InsertTree(rk(k), spec))]);
	}
	for k in 1..=3 {
		if derefs {
			a.push(vec![(0, Op::DerefTree(rk(k)))]);
		}
		if refs {
			a.push(vec![(0, Op::RefTree(rk(k)))]);
		}
	}
	a
}

/// Root liveness as a function of the history (a mirror of the model, for the alphabet rules only).
fn live_counts(hist: &[Ev], rc_roots: bool, append_only: bool) -> BTreeMap<Vec<u8>, u64> {
	let mut m: BTreeMap<Vec<u8>, u64> = BTreeMap::new();
	// a tree whose reader lock is held stays live (its removal is postponed) until the lock is released
	let mut locked: std::collections::BTreeSet<Vec<u8>> = Default::default();
	let mut postponed: Vec<Vec<u8>> = vec![];
	for e in hist {
		match e {
			Ev::Lock(_, k) =>
				if m.contains_key(&k.bytes()) {
					locked.insert(k.bytes());
				},
			Ev::Unlock(..) | Ev::Reopen => {
				let release: Vec<Vec<u8>> = match e {
					Ev::Unlock(_, k) => vec![k.bytes()],
					_ => locked.iter().cloned().collect(),
				};
				for k in release {
					locked.remove(&k);
					let n = postponed.iter().filter(|p| **p == k).count() as u64;
					postponed.retain(|p| *p != k);
					if n > 0 {
						if let Some(c) = m.get_mut(&k) {
							*c = c.saturating_sub(n);
							if *c == 0 {
								m.remove(&k);
							}
						}
					}
				}
			},
			_ => (),
		}
		if let Ev::Commit(tx) = e {
			for (_, op) in tx {
				match op {
					Op::InsertTree(k, n) =>
						if n.children.len() <= 255 && !has_wide_inner(n) {
							*m.entry(k.bytes()).or_insert(0) += 1;
						},
					Op::RefTree(k) =>
						if rc_roots {
							if let Some(c) = m.get_mut(&k.bytes()) {
								*c += 1;
							}
						},
					Op::DerefTree(k) =>
						if !append_only && locked.contains(&k.bytes()) && m.get(&k.bytes()) == Some(&1) {
							postponed.push(k.bytes());
						} else if !append_only {
							let kb = k.bytes();
							if let Some(c) = m.get_mut(&kb) {
								*c -= 1;
								if *c == 0 {
									m.remove(&kb);
								}
							}
						},
					_ => (),
				}
			}
		}
	}
	m
}

fn has_wide_inner(n: &NodeSpec) -> bool {
	n.children.iter().any(|c| match c {
		ChildSpec::New(n) => n.children.len() > 255 || has_wide_inner(n),
		_ => false,
	})
}

fn needs_live(n: &NodeSpec, out: &mut Vec<Vec<u8>>) {
	for c in &n.children {
		match c {
			ChildSpec::New(n) => needs_live(n, out),
			ChildSpec::Existing(k, _) => out.push(k.bytes()),
		}
	}
}

pub fn tree_filter(rc_roots: bool, append_only: bool) -> Arc<FilterFn> {
	Arc::new(move |hist: &[Ev], ev: &Ev| {
		if let Ev::Commit(tx) = ev {
			let live = live_counts(hist, rc_roots, append_only);
			for (_, op) in tx {
				if let Op::InsertTree(k, n) = op {
					// distinct live root keys; existing children must name nodes of live trees
					if live.contains_key(&k.bytes()) {
						return false
					}
					let mut need = vec![];
					needs_live(n, &mut need);
					if need.iter().any(|k| !live.contains_key(k)) {
						return false
					}
				}
			}
		}
		true
	})
}

pub fn tree_spec(variant: &str) -> ColSpec {
	let mut c = ColSpec::tree();
	match variant {
		"plain" => (),
		"no-direct" => c.direct_access = false,
		"append-only" => c.append_only = true,
		"rc-roots" => {
			c.ref_counted = true;
			c.preimage = true;
		},
		_ => panic!(),
	}
	c
}

fn scenario(name: &str, variant: &str, heavy: bool, n: usize, x: usize, drained: bool) -> Scenario {
	let spec = tree_spec(variant);
	let cfg = Config::new(vec![spec.clone()]);
	let alpha = alphabet_v(heavy, true, true, spec.ref_counted);
	let mut s = Scenario::new(&format!("{}/{}", variant, name), cfg.clone(), alpha.clone());
	s.universe = universe_of(&cfg, &alpha, &[]);
	s.max_commits = n;
	s.max_rejects = 1;
	s.max_reopen = x;
	let tf = tree_filter(spec.ref_counted, spec.append_only);
	if drained {
		s.stages = vec![];
		s.drain_event = true;
		s.pm = false;
		s.filter = Some(Arc::new(move |hist: &[Ev], ev: &Ev| {
			let ok = match (hist.last(), ev) {
				(Some(Ev::Commit(_)), Ev::Drain) => true,
				(Some(Ev::Commit(_)), _) => false,
				(_, Ev::Drain) => false,
				_ => true,
			};
			ok && tf(hist, ev)
		}));
	} else {
		s.filter = Some(tf);
	}
	s
}

/// two trees sharing ~2000 nodes: T2 names every leaf of T1 as an existing child (several shared nodes fall into
/// the same reference-count chunk), then T1 is dereferenced: every leaf must survive under T2
fn wide_sharing() -> Scenario {
	let spec = tree_spec("plain");
	let cfg = Config::new(vec![spec]);
	let groups = 8u32;
	let per = 250u32;
	let t1 = NodeSpec {
		data: B::pat(5, 1),
		children: (0..groups).map(|g| ChildSpec::New(NodeSpec { data: B::pat(6, 10 + g), children: (0..per).map(|i| ChildSpec::New(leaf(5000 + g * 1000 + i, 4))).collect() })).collect(),
	};
	let t2 = NodeSpec {
		data: B::pat(5, 2),
		children: (0..groups).map(|g| ChildSpec::New(NodeSpec { data: B::pat(6, 20 + g), children: (0..per).map(|i| ChildSpec::Existing(rk(1), vec![g, i])).collect() })).collect(),
	};
	let alpha: Vec<Tx> = vec![vec![(0, Op::InsertTree(rk(1), t1))], vec![(0, Op::InsertTree(rk(2), t2))], vec![(0, Op::DerefTree(rk(1)))], vec![(0, Op::DerefTree(rk(2)))]];
	let mut s = Scenario::new("plain/wide-sharing-2000-nodes", cfg.clone(), alpha.clone());
	s.universe = universe_of(&cfg, &alpha, &[]);
	s.max_commits = 4;
	s.max_rejects = 0;
	s.max_reopen = 1;
	s.stages = vec![];
	s.drain_event = true;
	s.pm = false;
	let tf = tree_filter(false, false);
	// one fixed order of commits (insert T1, insert T2, dereference one, dereference the other), reopen anywhere
	s.filter = Some(Arc::new(move |hist: &[Ev], ev: &Ev| {
		let ncommits = hist.iter().filter(|e| matches!(e, Ev::Commit(_))).count();
		let ok = match (hist.last(), ev) {
			(Some(Ev::Commit(_)), Ev::Drain) => true,
			(Some(Ev::Commit(_)), _) => false,
			(_, Ev::Drain) => false,
			(_, Ev::Commit(tx)) => match (&tx[0].1, ncommits) {
				(Op::InsertTree(k, _), 0) => *k == rk(1),
				(Op::InsertTree(k, _), 1) => *k == rk(2),
				(Op::DerefTree(_), 2) | (Op::DerefTree(_), 3) => true,
				_ => false,
			},
			_ => true,
		};
		ok && tf(hist, ev)
	}));
	s
}

/// Growth of the reference-count table (only reachable with a handful of nodes in the build whose smallest table has
/// 2^4 chunks of 32 entries, guard pdb_verif_small_index): T1 has 3 x 200 leaves, T2 names all of them (600 counted
/// nodes: more than the table holds, it grows while T2's record is planned), T3 names 200 of them again (count 3).
/// Then T3, T1 and T2 are dereferenced in that order. Commits come in this fixed order, each driven through P, F, E;
/// the reference-count migration batches (R, each followed by F and E) may come after any enact step, so that counts
/// are raised and lowered while entries still live in the old table; cleanup + reopen anywhere after an enact step.
/// At the end the column holds zero entries.
fn rc_table_growth(max_r: usize, x: usize) -> Scenario {
	let spec = tree_spec("plain");
	let cfg = Config::new(vec![spec]);
	let groups = 3u32;
	let per = 200u32;
	let t1 = NodeSpec {
		data: B::pat(5, 1),
		children: (0..groups).map(|g| ChildSpec::New(NodeSpec { data: B::pat(6, 10 + g), children: (0..per).map(|i| ChildSpec::New(leaf(5000 + g * 1000 + i, 4))).collect() })).collect(),
	};
	let t2 = NodeSpec {
		data: B::pat(5, 2),
		children: (0..groups).map(|g| ChildSpec::New(NodeSpec { data: B::pat(6, 20 + g), children: (0..per).map(|i| ChildSpec::Existing(rk(1), vec![g, i])).collect() })).collect(),
	};
	let t3 = NodeSpec { data: B::pat(5, 3), children: vec![ChildSpec::New(NodeSpec { data: B::pat(6, 30), children: (0..per).map(|i| ChildSpec::Existing(rk(1), vec![0, i])).collect() })] };
	let alpha: Vec<Tx> = vec![
		vec![(0, Op::InsertTree(rk(1), t1))],
		vec![(0, Op::InsertTree(rk(2), t2))],
		vec![(0, Op::InsertTree(rk(3), t3))],
		vec![(0, Op::DerefTree(rk(3)))],
		vec![(0, Op::DerefTree(rk(1)))],
		vec![(0, Op::DerefTree(rk(2)))],
	];
	let mut s = Scenario::new("plain/reference-count-table-growth", cfg.clone(), alpha.clone());
	s.universe = universe_of(&cfg, &alpha, &[]);
	s.max_commits = 6;
	s.max_rejects = 0;
	s.max_reopen = x;
	s.stages = vec![St::P, St::F, St::E, St::R, St::K];
	s.pm = false;
	let a2 = alpha.clone();
	s.filter = Some(Arc::new(move |hist: &[Ev], ev: &Ev| {
		let rs = hist.iter().filter(|e| matches!(e, Ev::Stage(St::R))).count();
		let ncommits = hist.iter().filter(|e| matches!(e, Ev::Commit(_))).count();
		let es = hist.iter().rev().take_while(|e| matches!(e, Ev::Stage(St::E))).count();
		match (hist.last(), ev) {
			(None, Ev::Commit(tx)) => format!("{:?}", tx) == format!("{:?}", a2[0]),
			(Some(Ev::Commit(_)), Ev::Stage(St::P)) => true,
			(Some(Ev::Stage(St::P)), Ev::Stage(St::F)) => true,
			(Some(Ev::Stage(St::R)), Ev::Stage(St::F)) => true,
			(Some(Ev::Stage(St::F)), Ev::Stage(St::E)) => true,
			(Some(Ev::Stage(St::E)), Ev::Stage(St::E)) => es < 2,
			(Some(Ev::Stage(St::E)), Ev::Stage(St::R)) => rs < max_r,
			(Some(Ev::Stage(St::E)), Ev::Stage(St::K)) => true,
			(Some(Ev::Stage(St::K)), Ev::Reopen) => true,
			(Some(Ev::Stage(St::E)) | Some(Ev::Stage(St::K)) | Some(Ev::Reopen), Ev::Commit(tx)) => a2.get(ncommits).map_or(false, |a| format!("{:?}", a) == format!("{:?}", tx)),
			_ => false,
		}
	}));
	s
}

/// Second part of C10, run by the build with the small smallest index / reference-count table.
pub fn run_small(tier: &str) -> ! {
	let mut run = Run::new("C10", tier, "model_checking");
	run.evidence_name = Some("C10-small-index".into());
	let budget = Budget::new(if tier == "thorough" { 900.0 } else { 60.0 });
	run.set("rule", json!("graph search in the build whose smallest reference-count table has 2^4 chunks (guard pdb_verif_small_index): three trees over 600 shared leaves (counts 2 and 3) make the table grow; commits in a fixed order (insert T1, T2, T3; dereference T3, T1, T2), each driven through process_commits, flush, enact; reference-count migration batches after any enact step (bounded), cleanup + reopen after any enact step; oracle after every event: every tree walk returns exactly the model's tree, entry count equals roots + nodes, zero entries after the last dereference"));
	run.assumptions = vec!["smallest reference-count table of 16 chunks instead of 65 536 (same code paths, smaller numbers)".into()];
	if !cfg!(pdb_verif_small_index) {
		machinery_error("C10R needs the build with --cfg pdb_verif_small_index");
	}
	let scn = if tier == "thorough" { rc_table_growth(4, 1) } else { rc_table_growth(2, 1) };
	super::run_scenarios(&mut run, &[scn], &budget);
	run.finish()
}

pub fn scenarios(tier: &str) -> Vec<Scenario> {
	let mut v = scenarios_base(tier);
	v.push(wide_sharing());
	v
}

fn scenarios_base(tier: &str) -> Vec<Scenario> {
	if tier == "thorough" {
		vec![
			scenario("n2-stages", "plain", true, 2, 1, false),
			scenario("n3-stages", "plain", false, 3, 1, false),
			scenario("n5-drained", "plain", false, 5, 1, true),
			scenario("n4-drained-heavy", "plain", true, 4, 1, true),
			scenario("n3-stages", "rc-roots", false, 3, 1, false),
			scenario("n4-drained", "rc-roots", true, 4, 1, true),
			scenario("n3-stages", "append-only", false, 3, 1, false),
			scenario("n3-stages", "no-direct", false, 3, 1, false),
		]
	} else {
		vec![
			scenario("n2-stages", "plain", false, 2, 1, false),
			scenario("n4-drained", "plain", false, 4, 1, true),
			scenario("n2-drained-heavy", "plain", true, 2, 0, true),
			scenario("n2-stages", "rc-roots", false, 2, 1, false),
			scenario("n3-drained", "rc-roots", false, 3, 1, true),
			scenario("n2-stages", "append-only", false, 2, 0, false),
			scenario("n2-stages", "no-direct", false, 2, 0, false),
		]
	}
}

pub fn run(tier: &str) -> ! {
	let mut run = Run::new("C10", tier, "model_checking");
	let budget = Budget::new(if tier == "thorough" { 1500.0 } else { 100.0 });
	run.set("rule", json!("graph search over histories of InsertTree / ReferenceTree / DereferenceTree on 3 root keys with distinct live roots; tree shapes: leaf root, root+1, root+2 with a depth-3 chain, children given as existing addresses of a live tree (same node twice; under a new child), multipart node data, fan-out 255 (accepted) and 256 at root / inner node (must be rejected); after every event every root is walked through the TreeReader (and the direct-access API where allowed) and compared with the expanded model tree; when all commits are logged, missing model roots must be unreadable and get_num_column_value_entries must equal roots + distinct nodes of the model (zero after all trees are dereferenced)"));
	run.assumptions = vec![
		"addresses are implementation choices: existing children are named by (root key, path) and resolved by walking the implementation's own tree at commit time".into(),
		"drained scenarios run the whole pipeline after every commit; '-stages' scenarios interleave all five stage events".into(),
	];
	super::run_scenarios(&mut run, &scenarios(tier), &budget);
	run.finish()
}
