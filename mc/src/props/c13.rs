//! C13 — damaged or stale write-ahead logs are rejected, never half-applied (E2 family 4).

use crate::core::*;
use crate::crash::{self, Op as FOp, SFile, Shadow};
use crate::crashmc::{judge_image, CrashCfg, CrashStats, Ctx};
use crate::exec::*;
use crate::par::{par_map, Item};
use crate::report::*;
use crate::search::{cleanup_scratch, nthreads, universe_of, worker_dir};
use serde_json::json;
use std::collections::BTreeMap;

struct Base {
	name: String,
	cfg: Config,
	universe: std::sync::Arc<Vec<Vec<Vec<u8>>>>,
	image: Shadow,
	/// an older generation of a log file (content of a log before it was cleaned), if the history produced one
	stale: Vec<(String, SFile)>,
	models: Vec<crate::model::Model>,
	accepted: Vec<Tx>,
	/// records (1-based commit number) per log file with their byte ranges
	records: BTreeMap<String, Vec<(usize, u64, u64)>>,
	enacted: usize,
	n: usize,
}

fn k(i: u32) -> B {
	B::pat(6, 3100 + i)
}
fn v(i: u32) -> B {
	match i % 3 {
		0 => B::pat(5, 3200 + i),
		1 => B::pat(70, 3200 + i),
		_ => B::pat(300, 3200 + i),
	}
}

/// Execute `hist` with recording and return the process-crash image at its end.
fn build_base(name: &str, cfg: Config, hist: Vec<Ev>, keep_stale_after: Option<usize>) -> Base {
	build_base_pm(name, cfg, hist, keep_stale_after, true)
}

/// `pm`: run the pipeline model in lock-step (it models sync_data = true only)
fn build_base_pm(name: &str, cfg: Config, hist: Vec<Ev>, keep_stale_after: Option<usize>, pm: bool) -> Base {
	let dir = worker_dir();
	wipe_dir(&dir);
	let txs: Vec<Tx> = hist.iter().filter_map(|e| if let Ev::Commit(t) = e { Some(t.clone()) } else { None }).collect();
	let universe = universe_of(&cfg, &txs, &[(0, k(9))]);
	let out = crate::interpose::fresh_thread(|| {
		crash::start(&dir);
		let mut ex = Exec::new(&dir, &cfg, universe.clone()).expect("base: open");
		ex.record_prefix = true;
		ex.pm.enabled = pm;
		let mut records: BTreeMap<String, Vec<(usize, u64, u64)>> = BTreeMap::new();
		let mut logged = 0usize;
		let mut stale = vec![];
		for (i, e) in hist.iter().enumerate() {
			let before = crash::ops_len();
			ex.apply(e).expect("base: event");
			{
				// a cleaned or deleted log file no longer holds its old records
				let was = crash::pause();
				let ops = crash::stop_peek();
				crash::resume(was);
				for op in &ops[before..] {
					match op {
						FOp::Trunc(p, 0) | FOp::Unlink(p) if p.starts_with("log") => {
							records.remove(p);
						},
						_ => (),
					}
				}
			}
			if let Ev::Stage(St::P) = e {
				// the log bytes written by this P are one record
				let was = crash::pause();
				let ops = crash::stop_peek();
				crash::resume(was);
				let mut range: Option<(String, u64, u64)> = None;
				for op in &ops[before..] {
					if let FOp::Write(p, o, d) = op {
						if p.starts_with("log") {
							range = Some(match range {
								None => (p.clone(), *o, *o + d.len() as u64),
								Some((q, a, b)) => (q, a.min(*o), b.max(*o + d.len() as u64)),
							});
						}
					}
				}
				if let Some((p, a, b)) = range {
					logged += 1;
					records.entry(p).or_default().push((logged, a, b));
				}
			}
			if keep_stale_after == Some(i) {
				let was = crash::pause();
				let ops = crash::stop_peek();
				crash::resume(was);
				let mut sh = Shadow::new();
				for op in ops.iter() {
					crash::apply(&mut sh, op);
				}
				for (p, f) in sh.iter() {
					if p.starts_with("log") && f.len > 0 {
						stale.push((p.clone(), f.clone()));
					}
				}
			}
		}
		// (every record of these histories is a user commit, so the last enacted record id is the number of enacted commits)
		let enacted = if pm { ex.pm.enacted } else { ex.digest().last_enacted as usize };
		let ops = crash::stop();
		let mut sh = Shadow::new();
		for op in ops.iter() {
			crash::apply(&mut sh, op);
		}
		crash::compare_with_dir(&sh, &dir).expect("shadow conformance");
		let mut models = vec![crate::model::Model::new(&cfg)];
		models.extend(ex.prefix.iter().cloned());
		let accepted = ex.accepted_txs.clone();
		// drop records of files that were cleaned since
		records.retain(|p, _| sh.get(p).map_or(false, |f| f.len > 0));
		for (p, r) in records.iter_mut() {
			let len = sh[p].len;
			r.retain(|(_, _, b)| *b <= len);
		}
		ex.abandon(); // the image is the crash image: no clean shutdown
		(sh, stale, models, accepted, records, enacted)
	});
	let (image, stale, models, accepted, records, enacted) = out;
	let n = models.len() - 1;
	Base { name: name.into(), cfg, universe, image, stale, models, accepted, records, enacted, n }
}

#[derive(Clone, Debug)]
enum Mutation {
	/// the crash image as it is
	None,
	Truncate(String, u64),
	Flip(String, u64, u8),
	Window(String, u64, u8),
	AppendGarbage(String, Vec<u8>),
	AppendOwnFirstRecord(String),
	AppendRecordOf(String, String),
	Delete(String),
	SwapNames(String, String),
	Duplicate(String, String),
	AddShortFile(String, usize),
	AddStale(String, usize),
}

impl Mutation {
	fn describe(&self) -> String {
		match self {
			Mutation::None => "undamaged crash image".to_string(),
			Mutation::Truncate(f, l) => format!("{} truncated to {} bytes", f, l),
			Mutation::Flip(f, b, bit) => format!("bit {} of byte {} of {} flipped", bit, b, f),
			Mutation::Window(f, o, x) => format!("8 bytes at {} of {} set to {:#04x}", o, f, x),
			Mutation::AppendGarbage(f, g) => format!("{} bytes of garbage appended to {}", g.len(), f),
			Mutation::AppendOwnFirstRecord(f) => format!("copy of its own first record appended to {}", f),
			Mutation::AppendRecordOf(f, g) => format!("first record of {} appended to {}", g, f),
			Mutation::Delete(f) => format!("{} deleted", f),
			Mutation::SwapNames(a, b) => format!("contents of {} and {} swapped", a, b),
			Mutation::Duplicate(a, b) => format!("{} duplicated as {}", a, b),
			Mutation::AddShortFile(f, n) => format!("{}-byte file {} added", n, f),
			Mutation::AddStale(f, i) => format!("stale log file of an earlier generation (#{}) added as {}", i, f),
		}
	}
}

fn mutations(b: &Base, thorough: bool) -> Vec<Mutation> {
	let mut m = vec![Mutation::None];
	let logs: Vec<String> = b.image.iter().filter(|(p, f)| p.starts_with("log") && f.len > 0).map(|(p, _)| p.clone()).collect();
	for f in logs.iter() {
		let len = b.image[f].len;
		for l in 0..len {
			m.push(Mutation::Truncate(f.clone(), l));
		}
		for byte in 0..len {
			for bit in 0..8u8 {
				if thorough || bit == 0 || bit == 7 {
					m.push(Mutation::Flip(f.clone(), byte, bit));
				}
			}
		}
		let mut o = 0;
		while o + 8 <= len {
			m.push(Mutation::Window(f.clone(), o, 0x00));
			m.push(Mutation::Window(f.clone(), o, 0xff));
			o += if thorough { 1 } else { 8 };
		}
		for g in [vec![0u8], vec![1u8], vec![4u8], vec![0xffu8; 3], vec![1, 2, 0, 0, 0, 0, 0, 0, 0], (0..40u8).collect::<Vec<_>>()] {
			m.push(Mutation::AppendGarbage(f.clone(), g));
		}
		m.push(Mutation::AppendOwnFirstRecord(f.clone()));
		for g in logs.iter() {
			if g != f {
				m.push(Mutation::AppendRecordOf(f.clone(), g.clone()));
				m.push(Mutation::SwapNames(f.clone(), g.clone()));
			}
		}
		m.push(Mutation::Delete(f.clone()));
		m.push(Mutation::Duplicate(f.clone(), "log7".into()));
	}
	for n in 0..=9 {
		m.push(Mutation::AddShortFile("log8".into(), n));
	}
	for i in 0..b.stale.len() {
		m.push(Mutation::AddStale("log9".into(), i));
	}
	m
}

/// Apply a mutation; returns the image and the largest admissible prefix length.
fn mutate(b: &Base, m: &Mutation) -> (Shadow, usize) {
	let mut img = b.image.clone();
	// first damaged record (commit number) of file f when bytes [a, z) are touched / missing
	let first_hit = |f: &str, a: u64, z: u64| -> Option<usize> {
		b.records.get(f).and_then(|r| r.iter().find(|(_, ra, rb)| a < *rb && z > *ra).map(|(c, _, _)| *c))
	};
	// a damaged record that is already in the tables does not limit what may follow
	let upper_for = |hit: Option<usize>| -> usize {
		match hit {
			Some(c) if c > b.enacted => c - 1,
			_ => b.n,
		}
	};
	let upper = match m {
		Mutation::None => b.n,
		Mutation::Truncate(f, l) => {
			let len = img[f].len;
			img.get_mut(f).unwrap().trunc(*l);
			upper_for(first_hit(f, *l, len))
		},
		Mutation::Flip(f, byte, bit) => {
			let mut d = img[f].read(*byte, 1);
			d[0] ^= 1 << bit;
			img.get_mut(f).unwrap().write(*byte, &d, false);
			upper_for(first_hit(f, *byte, *byte + 1))
		},
		Mutation::Window(f, o, x) => {
			let old = img[f].read(*o, 8);
			let new = vec![*x; 8];
			let mut hit = None;
			for i in 0..8u64 {
				if old[i as usize] != new[i as usize] {
					let h = first_hit(f, *o + i, *o + i + 1);
					hit = match (hit, h) {
						(None, h) => h,
						(Some(a), Some(b)) => Some(a.min(b)),
						(a, None) => a,
					};
				}
			}
			img.get_mut(f).unwrap().write(*o, &new, false);
			upper_for(hit)
		},
		Mutation::AppendGarbage(f, g) => {
			let len = img[f].len;
			img.get_mut(f).unwrap().write(len, g, true);
			b.n
		},
		Mutation::AppendOwnFirstRecord(f) => {
			let (_, a, z) = b.records[f][0];
			let rec = img[f].read(a, (z - a) as usize);
			let len = img[f].len;
			img.get_mut(f).unwrap().write(len, &rec, true);
			b.n
		},
		Mutation::AppendRecordOf(f, g) => {
			let (_, a, z) = b.records[g][0];
			let rec = img[g].read(a, (z - a) as usize);
			let len = img[f].len;
			img.get_mut(f).unwrap().write(len, &rec, true);
			b.n
		},
		Mutation::Delete(f) => {
			let len = img[f].len;
			img.remove(f);
			upper_for(first_hit(f, 0, len))
		},
		Mutation::SwapNames(a, c) => {
			let fa = img.remove(a).unwrap();
			let fc = img.remove(c).unwrap();
			img.insert(a.clone(), fc);
			img.insert(c.clone(), fa);
			b.n
		},
		Mutation::Duplicate(a, c) => {
			let fa = img[a].clone();
			img.insert(c.clone(), fa);
			b.n
		},
		Mutation::AddShortFile(f, n) => {
			let mut sf = SFile::default();
			let bytes: Vec<u8> = (0..*n).map(|i| if i == 0 { 1 } else { 0 }).collect();
			sf.write(0, &bytes, true);
			img.insert(f.clone(), sf);
			b.n
		},
		Mutation::AddStale(f, i) => {
			img.insert(f.clone(), b.stale[*i].1.clone());
			b.n
		},
	};
	(img, upper)
}

fn bases(thorough: bool) -> Vec<Base> {
	let p = Ev::Stage(St::P);
	let f = Ev::Stage(St::F);
	let e = Ev::Stage(St::E);
	let kk = Ev::Stage(St::K);
	let c = |tx: Tx| Ev::Commit(tx);
	let hash = Config::new(vec![ColSpec::hash()]);
	let t1: Tx = vec![(0, Op::Set(k(1), v(0)))];
	let t2: Tx = vec![(0, Op::Set(k(2), v(1))), (0, Op::Del(k(1)))];
	let t3: Tx = vec![(0, Op::Set(k(1), v(2))), (0, Op::Set(k(3), v(0)))];
	let t4: Tx = vec![(0, Op::Set(k(2), v(0)))];
	let mut out = vec![
		// three files, one record each, the first enacted
		build_base("hash/3-files-1-enacted", hash.clone(), vec![c(t1.clone()), p.clone(), f.clone(), c(t2.clone()), p.clone(), f.clone(), e.clone(), c(t3.clone()), p.clone(), f.clone()], None),
		// two records in the first file (one enacted), one in the second
		build_base("hash/2-records-in-one-file", hash.clone(), vec![c(t1.clone()), p.clone(), c(t2.clone()), p.clone(), f.clone(), e.clone(), c(t3.clone()), p.clone(), f.clone()], None),
		// recycled file: log0 cleaned and reused for record 3 while log1 still holds record 2; an older generation of
		// log0 (holding record 1) is kept as stale material
		build_base(
			"hash/recycled-file+stale-generation",
			hash.clone(),
			vec![c(t1.clone()), p.clone(), f.clone(), c(t2.clone()), p.clone(), f.clone(), e.clone(), e.clone(), kk.clone(), c(t3.clone()), p.clone(), f.clone(), c(t4.clone()), p.clone()],
			Some(2),
		),
	];
	// everything up to record 2 applied and its logs cleaned; an older generation of log0 (record 1) reappears
	out.push(build_base(
		"hash/stale-generation-older-than-tables",
		hash.clone(),
		vec![c(t1.clone()), p.clone(), f.clone(), e.clone(), e.clone(), kk.clone(), c(t2.clone()), p.clone(), f.clone(), e.clone(), e.clone(), kk.clone(), c(t3.clone()), p.clone(), f.clone()],
		Some(2),
	));
	let kv = Config::new(vec![ColSpec::hash(), ColSpec::btree()]);
	let m1: Tx = vec![(0, Op::Set(k(1), v(0))), (1, Op::Set(k(1), v(1)))];
	let m2: Tx = vec![(1, Op::Set(k(2), v(2))), (0, Op::Del(k(1))), (1, Op::Del(k(1)))];
	let m3: Tx = vec![(1, Op::Set(k(1), v(0))), (0, Op::Set(k(2), v(1)))];
	out.push(build_base("hash+btree/3-files-none-enacted", kv.clone(), vec![c(m1.clone()), p.clone(), f.clone(), c(m2.clone()), p.clone(), f.clone(), c(m3.clone()), p.clone(), f.clone()], None));
	{
		out.push(build_base("hash+btree/2-of-3-enacted", kv, vec![c(m1), p.clone(), f.clone(), c(m2), p.clone(), f.clone(), e.clone(), e.clone(), e.clone(), c(m3), p.clone(), f.clone()], None));
	}
	{
		// sync_data = false: the 16 most recent log files are kept after their records are in the tables (and replayed
		// at open); 20 commits overwriting one key, each driven through the whole pipeline incl. cleanup
		let mut lazy = Config::new(vec![ColSpec::hash()]);
		lazy.sync_data = false;
		let mut h = vec![];
		for i in 0..20u32 {
			h.push(c(vec![(0, Op::Set(k(1), v(i))), (0, Op::Set(k(2 + i % 2), v(i + 1)))]));
			h.extend([p.clone(), f.clone(), e.clone(), e.clone(), kk.clone()]);
		}
		out.push(build_base_pm("hash/sync_data=false/20-commits-16-logs-kept", lazy, h, None, false));
	}
	{
		// counting column + multitree column; the second and third record hold reference-count changes (a tree that
		// names a node of another tree): none enacted, and one with the first two enacted
		let (cfg, alpha, _) = crate::props::c02::rc_tree_family();
		let h: Vec<Ev> = [&alpha[0], &alpha[1], &alpha[3]].into_iter().flat_map(|t| vec![c(t.clone()), p.clone(), f.clone()]).collect();
		out.push(build_base("rc+tree/3-files-none-enacted", cfg.clone(), h.clone(), None));
		// the same with every record already in the tables and the log files not yet cleaned: replay goes over records
		// the tables are ahead of
		let mut h2 = h.clone();
		h2.extend([e.clone(), e.clone(), e.clone(), e.clone(), e.clone(), e.clone()]);
		out.push(build_base("rc+tree/3-files-all-enacted-not-cleaned", cfg.clone(), h2, None));
	}
	if thorough {
		let bt = Config::new(vec![ColSpec::btree()]);
		out.push(build_base("btree/3-files-1-enacted", bt, vec![c(t1), p.clone(), f.clone(), c(t2), p.clone(), f.clone(), e.clone(), c(t3), p.clone(), f.clone()], None));
	}
	out
}

pub fn run(tier: &str) -> ! {
	let mut run = Run::new("C13", tier, "fault_enumeration");
	let thorough = tier == "thorough";
	let bases = bases(thorough);
	let mut jobs: Vec<(usize, Mutation)> = vec![];
	for (bi, b) in bases.iter().enumerate() {
		for m in mutations(b, thorough) {
			jobs.push((bi, m));
		}
		println!("  base {:<40} logs {:?} enacted {} of {} commits", b.name, b.records.iter().map(|(p, r)| format!("{}:{}B/{}rec", p, b.image[p].len, r.len())).collect::<Vec<_>>(), b.enacted, b.n);
	}
	let cc = CrashCfg { recovery_depth: 1, suffix: Some(vec![(0, Op::Set(k(9), v(1)))]), ..Default::default() };
	// chunks of jobs per item to amortise process start
	let chunk = 64;
	let nitems = (jobs.len() + chunk - 1) / chunk;
	let items = par_map(nitems, nthreads(), "c13", |it| {
		let mut stats = CrashStats::default();
		let mut bad: Option<(usize, String, String)> = None;
		crate::interpose::fresh_thread(|| {
			for ji in it * chunk..((it + 1) * chunk).min(jobs.len()) {
				let (bi, m) = &jobs[ji];
				let b = &bases[*bi];
				let (img, upper) = mutate(b, m);
				let prefix_obs: Vec<String> = b.models.iter().map(|mm| crate::observe::observe_model(mm, &b.universe)).collect();
				let ctx = Ctx { cfg: &b.cfg, universe: b.universe.clone(), prefix_obs, prefix: &b.models, accepted: &b.accepted, crash: &cc, property: "C13" };
				let mut what = format!("base {}: {}", b.name, m.describe());
				// the file replayed first vanishes (deleted, or too short to carry a record id) while it holds a record
				// that is not yet in the tables
				let vanishes = match m {
					Mutation::Delete(f) => Some(f),
					Mutation::Truncate(f, l) if *l < 9 => Some(f),
					_ => None,
				};
				let head_damaged = match m {
					Mutation::Flip(f, byte, _) if *byte >= 1 && *byte < 9 => Some(f),
					Mutation::Window(f, o, _) if *o < 9 => Some(f),
					_ => None,
				};
				if let Some(f) = head_damaged {
					let first_of = |r: &Vec<(usize, u64, u64)>| r.first().map(|x| x.0).unwrap_or(usize::MAX);
					let is_first = b.records.values().all(|r| first_of(r) >= first_of(&b.records[f]));
					if is_first && b.records[f].iter().any(|(c, _, _)| *c > b.enacted) {
						what.push_str(" [the record id at the head of the log file replayed first, which holds a record not yet applied, is damaged]");
					}
				}
				// damage to a log file whose records are all in the tables already, while the tables also hold a later record
				let touched: Vec<&String> = match m {
					Mutation::Truncate(f, _) | Mutation::Flip(f, _, _) | Mutation::Window(f, _, _) | Mutation::AppendGarbage(f, _) | Mutation::AppendOwnFirstRecord(f) | Mutation::AppendRecordOf(f, _) => vec![f],
					Mutation::SwapNames(a, c) => vec![a, c],
					_ => vec![],
				};
				for f in touched {
					if let Some(recs) = b.records.get(f) {
						let last = recs.iter().map(|x| x.0).max().unwrap_or(0);
						if !recs.is_empty() && last <= b.enacted && b.records.values().flatten().any(|x| x.0 > last && x.0 <= b.enacted) {
							what.push_str(" [a log file all of whose records are already in the tables is damaged while the tables also hold a later record]");
							break
						}
					}
				}
				if let Some(f) = vanishes {
					let first_of = |r: &Vec<(usize, u64, u64)>| r.first().map(|x| x.0).unwrap_or(usize::MAX);
					let is_first = b.records.values().all(|r| first_of(r) >= first_of(&b.records[f]));
					if is_first && b.records[f].iter().any(|(c, _, _)| *c > b.enacted) {
						what.push_str(" [the log file replayed first, holding a record not yet applied, vanishes]");
					}
				}
				if let Err(f) = judge_image(&ctx, &img, b.enacted, upper, &what, 1, &mut stats) {
					bad = Some((ji, f.kind.clone(), f.msg.clone()));
					break
				}
			}
		});
		let j = json!({"images": stats.images, "distinct": stats.distinct_images, "to": stats.recovered_to,
			"bad": bad.as_ref().map(|(ji, k, m)| json!({"job": ji, "kind": k, "msg": m}))});
		(serde_json::to_vec(&j).unwrap(), false)
	});
	let mut images = 0u64;
	let mut distinct = 0u64;
	let mut to: BTreeMap<String, u64> = BTreeMap::new();
	let mut reported = std::collections::BTreeSet::new();
	for it in items {
		match it {
			Item::Done(bts) => {
				let j: serde_json::Value = serde_json::from_slice(&bts).unwrap();
				images += j["images"].as_u64().unwrap();
				distinct += j["distinct"].as_u64().unwrap();
				for (k, v) in j["to"].as_object().unwrap() {
					*to.entry(k.clone()).or_insert(0) += v.as_u64().unwrap();
				}
				if let Some(bad) = j.get("bad").filter(|b| !b.is_null()) {
					let ji = bad["job"].as_u64().unwrap() as usize;
					let (bi, m) = &jobs[ji];
					let rendering = format!("{}: {}", bad["kind"].as_str().unwrap(), bad["msg"].as_str().unwrap());
					// one report per (base, failure kind): the first mutation that shows it
					if reported.insert((*bi, bad["kind"].as_str().unwrap().to_string())) {
						run.violation(json!({"property": "C13", "engine": "logdamage", "base": bases[*bi].name, "mutation": format!("{:?}", m), "message": rendering}), &rendering);
					}
				}
			},
			Item::Crashed(why) => {
				let m = format!("process died while recovering a damaged image: {}", why);
				run.violation(json!({"property": "C13", "engine": "logdamage", "message": m}), &m)
			},
			Item::NotRun => (),
		}
	}
	cleanup_scratch();
	run.set("evaluations", json!(images));
	run.set("distinct_nontrivial", json!(distinct));
	run.set("recovered_to", json!(to));
	run.set("bases", json!(bases.iter().map(|b| b.name.clone()).collect::<Vec<_>>()));
	run.set("rule", json!(format!("base images: crash images of {} histories with 2-3 log files holding synced records, some already enacted (incl. a recycled log file and a stale older generation of a log file); mutations: every truncation length of every log file, {} of every byte, every {}8-byte window set to 00.. and ff.., garbage tails, a copy of the file's own first record or of another file's record appended, every log file deleted / swapped with another / duplicated under a new name, 0..9-byte extra log files, a stale earlier-generation log file added. Oracle per image: open does not panic and succeeds, the state equals S_j with j >= records already enacted and j <= last record all of whose bytes (and predecessors') are intact; then one more commit works and survives a reopen. distinct = images with distinct content", bases.len(), if thorough { "every single-bit flip" } else { "flips of bit 0 and bit 7" }, if thorough { "" } else { "aligned " })));
	run.sample(json!({"base": "hash/3-files-1-enacted", "mutation": "bit 0 of byte 9 of log1 flipped (record 2 damaged)", "expected": "recovered state = S_1"}));
	run.sample(json!({"base": "hash/recycled-file+stale-generation", "mutation": "older generation of log0 (holding record 1) added as log9"}));
	run.assumptions = vec!["CRC-32 collisions under multi-byte damage are outside the bound (single-bit flips are always detected by CRC-32)".into()];
	run.finish()
}
