//! C19 — index page search never misses a matching entry (E4 `pagemc`: exhaustive small-scope
//! enumeration of the real page-search functions through hook H5).

use crate::par::{par_map, Item};
use crate::report::*;
use serde_json::json;

const ENTRIES: usize = 64;

fn address_bits(n: u8) -> u32 {
	n as u32 + 6 + 8
}

/// partial key of `key_prefix` as stored in an entry of an index with `n` bits
fn partial(key_prefix: u64, n: u8) -> u64 {
	(key_prefix << n) >> address_bits(n)
}

fn entry(partial_key: u64, address: u64, n: u8) -> u64 {
	(partial_key << address_bits(n)) | (address & ((1u64 << address_bits(n)) - 1))
}

fn entry_partial(e: u64, n: u8) -> u64 {
	e >> address_bits(n)
}

/// number of partial-key bits
fn pbits(n: u8) -> u32 {
	64 - address_bits(n)
}

/// number of low partial-key bits a 32-bit-lane comparison cannot see
fn dropped_bits(n: u8) -> u32 {
	pbits(n).saturating_sub(32)
}

#[derive(Clone, Copy, Debug, PartialEq)]
enum Slot {
	Exact,
	ExactOtherAddress,
	FastOnly,
	NonMatch,
	ZeroPartial,
}

fn slot_classes(n: u8, key_partial: u64) -> Vec<Slot> {
	let mut v = vec![Slot::Exact, Slot::ExactOtherAddress, Slot::NonMatch];
	if dropped_bits(n) > 0 {
		v.push(Slot::FastOnly);
	}
	if key_partial != 0 {
		v.push(Slot::ZeroPartial);
	}
	v
}

fn make_slot(c: Slot, key_partial: u64, n: u8) -> u64 {
	let all = (1u64 << address_bits(n)) - 1;
	match c {
		Slot::Exact => entry(key_partial, 0x1234_5678_9abc & all | 1, n),
		Slot::ExactOtherAddress => entry(key_partial, all, n),
		// differs only in the lowest partial-key bit (one the 32-bit lanes cannot see)
		Slot::FastOnly => entry(key_partial ^ 1, 0x0fed_cba9_8765 & all | 1, n),
		// differs in the highest partial-key bit
		Slot::NonMatch => entry(key_partial ^ (1u64 << (pbits(n) - 1)), 0x0aaa_aaaa_aaaa & all | 1, n),
		Slot::ZeroPartial => entry(0, 0x0555_5555_5555 & all | 1, n),
	}
}

struct Verdict {
	calls: u64,
	pages: u64,
	bad: Option<String>,
}

fn judge(n: u8, key_prefix: u64, page: &[u64; ENTRIES], start: usize) -> Result<(), String> {
	let mut chunk = [0u8; 512];
	for (i, e) in page.iter().enumerate() {
		chunk[i * 8..i * 8 + 8].copy_from_slice(&e.to_le_bytes());
	}
	let ((fe, fp), (be, bp)) = parity_db::verif::find_entry(n, key_prefix, start, &chunk);
	let kp = partial(key_prefix, n);
	let exact = |e: u64| e != 0 && entry_partial(e, n) == kp;
	let first_exact = (start..ENTRIES).find(|i| exact(page[*i]));
	// the scalar search is the exact-match reference: it must itself be exact
	match (be, first_exact) {
		(0, None) => (),
		(e, Some(i)) if e == page[i] && bp == i => (),
		_ => return Err(format!("scalar search returned ({:#x}, {}) but the first exact match at or after {} is {:?}", be, bp, start, first_exact)),
	}
	if fe == 0 {
		if let Some(i) = first_exact {
			return Err(format!("fast search reports absent but slot {} holds an exact match", i))
		}
		return Ok(())
	}
	if fp < start {
		return Err(format!("fast search returned slot {} before the start position {}", fp, start))
	}
	if fp >= ENTRIES || page[fp] != fe {
		return Err(format!("fast search returned entry {:#x} which is not the content of slot {}", fe, fp))
	}
	// agrees with the key on every partial-key bit a 32-bit lane comparison sees
	let d = dropped_bits(n);
	if (entry_partial(fe, n) >> d) != (kp >> d) {
		return Err(format!("fast search returned slot {} whose partial key {:#x} disagrees with the key's {:#x} on compared bits", fp, entry_partial(fe, n), kp))
	}
	if let Some(i) = first_exact {
		if i < fp {
			return Err(format!("fast search returned slot {} but an exact match lies earlier at {}", fp, i))
		}
	}
	// "first": no earlier slot at or after start agrees on the compared bits (and is non-empty)
	if let Some(i) = (start..fp).find(|i| page[*i] != 0 && (entry_partial(page[*i], n) >> d) == (kp >> d) && (kp >> d) != 0) {
		return Err(format!("fast search returned slot {} but slot {} already agrees on every compared bit", fp, i))
	}
	Ok(())
}

fn keys_for(n: u8) -> Vec<(&'static str, u64)> {
	// key_prefix = [n index bits][50-n partial-key bits][14 low bits]
	let chunk_bits: u64 = 0b1011 << (60); // some chunk index (top n bits), irrelevant to the page search
	let place = |p: u64| -> u64 { (chunk_bits & !((1u64 << (64 - n as u32)) - 1)) | (p << 14) | 0x2a5a };
	let pb = pbits(n);
	let mut v = vec![("fast-pattern and partial key nonzero", place((0x2d5b_6f9c_a7e3_u64 & ((1u64 << pb) - 1)) | (1 << (pb - 1)) | 1))];
	if dropped_bits(n) > 0 {
		v.push(("fast-pattern zero, partial key nonzero", place(1)));
	}
	v.push(("partial key zero", place(0)));
	v
}

fn run_width(n: u8, occupied: usize) -> Verdict {
	let mut calls = 0u64;
	let mut pages = 0u64;
	for (kname, key_prefix) in keys_for(n) {
		let kp = partial(key_prefix, n);
		let classes = slot_classes(n, kp);
		let slots: Vec<u64> = classes.iter().map(|c| make_slot(*c, kp, n)).collect();
		let mut check = |page: &[u64; ENTRIES]| -> Option<String> {
			pages += 1;
			for start in 0..=ENTRIES {
				calls += 1;
				if let Err(e) = judge(n, key_prefix, page, start) {
					let occ: Vec<String> = page.iter().enumerate().filter(|(_, e)| **e != 0).map(|(i, e)| format!("{}:{:#x}", i, e)).collect();
					return Some(format!("index bits {}, key class '{}' (prefix {:#x}), start {}, page [{}]: {} ##{}", n, kname, key_prefix, start, occ.join(" "), e,
						json!({"index_bits": n, "key_prefix": format!("{:#x}", key_prefix), "start": start, "page": page.iter().map(|e| format!("{:#x}", e)).collect::<Vec<_>>()})))
				}
			}
			None
		};
		let mut page = [0u64; ENTRIES];
		if let Some(b) = check(&page) {
			return Verdict { calls, pages, bad: Some(b) }
		}
		for i in 0..ENTRIES {
			for a in slots.iter() {
				page[i] = *a;
				if let Some(b) = check(&page) {
					return Verdict { calls, pages, bad: Some(b) }
				}
				if occupied >= 2 {
					for j in i + 1..ENTRIES {
						for b2 in slots.iter() {
							page[j] = *b2;
							if let Some(b) = check(&page) {
								return Verdict { calls, pages, bad: Some(b) }
							}
							if occupied >= 3 {
								for k in j + 1..ENTRIES {
									for c in slots.iter() {
										page[k] = *c;
										if let Some(b) = check(&page) {
											return Verdict { calls, pages, bad: Some(b) }
										}
									}
									page[k] = 0;
								}
							}
						}
						page[j] = 0;
					}
				}
			}
			page[i] = 0;
		}
		// full pages: 63 non-matching entries (distinct addresses) and one special entry at each position
		for special in slots.iter() {
			for pos in 0..ENTRIES {
				let mut page = [0u64; ENTRIES];
				for (i, e) in page.iter_mut().enumerate() {
					*e = make_slot(Slot::NonMatch, kp, n) ^ ((i as u64 + 1) << 1);
				}
				page[pos] = *special;
				if let Some(b) = check(&page) {
					return Verdict { calls, pages, bad: Some(b) }
				}
			}
		}
	}
	Verdict { calls, pages, bad: None }
}

pub fn run(tier: &str) -> ! {
	let mut run = Run::new("C19", tier, "exploration");
	let occupied = if tier == "thorough" { 3 } else { 2 };
	let widths: Vec<u8> = (16..=44).collect();
	let items = par_map(widths.len(), crate::search::nthreads(), "c19", |i| {
		let v = run_width(widths[i], occupied);
		let j = json!({"calls": v.calls, "pages": v.pages, "bad": v.bad});
		(serde_json::to_vec(&j).unwrap(), false)
	});
	let mut calls = 0;
	let mut pages = 0;
	for (i, it) in items.into_iter().enumerate() {
		match it {
			Item::Done(b) => {
				let j: serde_json::Value = serde_json::from_slice(&b).unwrap();
				calls += j["calls"].as_u64().unwrap();
				pages += j["pages"].as_u64().unwrap();
				if let Some(bad) = j["bad"].as_str() {
					let (text, case) = bad.split_once(" ##").unwrap_or((bad, "{}"));
					let case: serde_json::Value = serde_json::from_str(case).unwrap_or(json!({}));
					run.violation(json!({"property": "C19", "engine": "pagemc", "case": case, "message": text}), text);
				}
			},
			Item::Crashed(why) => run.violation(json!({"property": "C19", "engine": "pagemc", "case": format!("index bits {}: {}", widths[i], why)}), &format!("page search crashed the process for index bits {}: {}", widths[i], why)),
			Item::NotRun => machinery_error("C19 width not run"),
		}
	}
	crate::search::cleanup_scratch();
	run.set("evaluations", json!(calls));
	run.set("distinct_nontrivial", json!(pages));
	run.set("rule", json!(format!("every index size 16..=44 x key class (fast-compared bits and partial key nonzero / fast-compared bits zero but partial key nonzero (sizes 16,17) / partial key zero) x every page with at most {} occupied slots, each from {{exact match, exact match with another address, match only on the fast-compared bits, non-match, zero partial key with nonzero address}}, plus full pages with one special entry at each position x every start position 0..=64 (64 = continue after slot 63: nothing may be found); both the fast (SSE2) and the scalar search are called on each; distinct = pages (each differs in content), evaluations = (page, start) calls", occupied)));
	run.sample(json!({"index_bits": 16, "key_class": "fast-pattern zero, partial key nonzero", "page": "slot 5 = entry matching only on the 32 fast-compared bits, slot 9 = exact match", "start": 0, "expected": "fast path may return 5 or 9 only if it agrees on compared bits; never absent"}));
	run.sample(json!({"index_bits": 30, "page": "63 non-matching entries, exact match at slot 63", "start": 63}));
	run.assumptions = vec![
		"x86_64 (SSE2 path); oracle = weakest reading of the statement plus 'first slot agreeing on all compared bits'".into(),
		"pages with more than 3 occupied slots only as full pages with one special entry".into(),
	];
	run.finish()
}

pub fn replay(j: &serde_json::Value) -> ! {
	let c = &j["case"];
	let hexu = |v: &serde_json::Value| u64::from_str_radix(v.as_str().unwrap().trim_start_matches("0x"), 16).unwrap();
	let n = c["index_bits"].as_u64().unwrap() as u8;
	let mut page = [0u64; ENTRIES];
	for (i, e) in c["page"].as_array().unwrap().iter().enumerate() {
		page[i] = hexu(e);
	}
	match judge(n, hexu(&c["key_prefix"]), &page, c["start"].as_u64().unwrap() as usize) {
		Ok(()) => {
			println!("replay: page search answers correctly on this case");
			std::process::exit(0)
		},
		Err(e) => {
			println!("replay: {}", e);
			println!("VIOLATION property=C19 replay=(this file)");
			std::process::exit(1)
		},
	}
}
