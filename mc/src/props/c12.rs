//! C12 — power loss cannot tear state: log synced before apply, data flushed before log reuse.

use crate::core::*;
use crate::crashmc::CrashCfg;
use crate::props::c02::*;
use crate::report::*;
use crate::search::*;
use serde_json::json;

/// uniform keys with the zero salt (identity hashing): entries in the first, the last and a middle chunk of the
/// index file, and in the last page of the file (the index is flushed by byte range)
pub fn index_edges_family() -> (Config, Vec<Tx>, Tx) {
	let mut spec = ColSpec::hash();
	spec.uniform = true;
	let mut cfg = Config::new(vec![spec]);
	cfg.salt = 0;
	let pk = crate::props::c09::page_key;
	let alpha: Vec<Tx> = vec![
		vec![(0, Op::Set(pk(0xffff, 1), B::pat(8, 1))), (0, Op::Set(pk(0x0000, 2), B::pat(28, 2)))],
		vec![(0, Op::Set(pk(0xffe1, 3), B::pat(8, 3))), (0, Op::Set(pk(0x8000, 4), B::pat(28, 4))), (0, Op::Del(pk(0xffff, 1)))],
	];
	let suffix: Tx = vec![(0, Op::Set(pk(0xfffe, 9), B::pat(8, 9)))];
	(cfg, alpha, suffix)
}

pub fn scenarios(tier: &str) -> Vec<Scenario> {
	let pl = |torn: u8, full: usize| CrashCfg { torn, recovery_depth: 1, power_loss: true, max_full_subsets: full, ..Default::default() };
	if tier == "thorough" {
		vec![
			scenario("power-loss/hash/n3", small_family(), 3, 1, pl(1, 10), false),
			scenario("power-loss/hash/n3-x0", small_family(), 3, 0, pl(0, 6), false),
			scenario("power-loss/hash+btree/n2", kv_family(), 2, 1, pl(1, 10), false),
			scenario("power-loss/hash/n2-every-tail-length", small_family(), 2, 0, pl(2, 10), false),
			scenario("power-loss/rc+tree/n2", rc_tree_family(), 2, 0, pl(1, 8), true),
			scenario("power-loss/index-first-and-last-chunks/n2-x1", index_edges_family(), 2, 1, pl(1, 10), false),
		]
	} else {
		vec![
			scenario("power-loss/hash/n2", small_family(), 2, 1, pl(1, 8), false),
			scenario("power-loss/hash+btree/n1", kv_family(), 1, 1, pl(1, 8), false),
			scenario("power-loss/index-first-and-last-chunks/n2", index_edges_family(), 2, 0, pl(0, 8), false),
			// three commits in the order of the alphabet: log files are recycled (a lower file id may hold newer records)
			crate::props::c16::ordered(scenario("power-loss/hash-overwrite/n3-in-order", crate::props::c16::overwrite_family(), 3, 0, pl(0, 6), false)),
		]
	}
}

pub fn run(tier: &str) -> ! {
	let mut run = Run::new("C12", tier, "fault_enumeration");
	let budget = Budget::new(if tier == "thorough" { 1500.0 } else { 150.0 });
	run.set("rule", json!("at every crash point of every edge (see C02) a power loss is simulated: per file the content as of its last fdatasync/fsync/msync is durable; every 4 KiB page of a mapped table/index/ref-count file that was modified since then either reaches the disk or not (all subsets when at most max_full_subsets pages are dirty, otherwise all subsets with at most 2 stale or at most 2 fresh pages), and the unsynced tail of each appended file (log, metadata) is cut at {synced length, +1, +9 (after a record header), middle, -5 (before end marker + checksum), -1, full} (every length in the thorough 'every-tail-length' scenario); file creation, truncation and deletion are durable in program order. Each distinct image is recovered and must equal S_j with j >= number of commits whose log was synced. Options sync_wal = sync_data = true"));
	run.assumptions = vec![
		"fault model exactly as the property states it (pages of mapped files, prefix of appended log bytes); reordering of directory operations by a journaling file system is outside it".into(),
		"page granularity 4 KiB; a page is either at its last-synced content or at its content at the crash point".into(),
	];
	super::run_scenarios(&mut run, &scenarios(tier), &budget);
	// an I/O failure first (every file operation index of every step), the workers finish their iteration, then the
	// power goes
	{
		let mut s = scenario("io-failure-then-power-loss/hash", small_family(), if tier == "thorough" { 3 } else { 2 }, 0, CrashCfg::default(), false);
		s.crash = None;
		s.faults = true;
		s.faults_then_power_loss = true;
		s.property = "C12".into();
		let t0 = std::time::Instant::now();
		let (st, found) = graph_search(&s, &budget);
		println!("  scenario {:<40} states={} edges={} fault-runs={} power-loss-images={} {:.1}s", s.name, st.states, st.transitions, st.faults.runs, st.faults.power_loss_images, t0.elapsed().as_secs_f64());
		run.add_count("crash_images", st.faults.power_loss_images);
		run.add_count("distinct_crash_images_recovered", st.faults.power_loss_images);
		run.add_count("io_failure_then_power_loss_runs", st.faults.runs);
		run.parts.push(json!({"scenario": s.name, "states": st.states, "edges": st.transitions, "fault_runs": st.faults.runs, "power_loss_images": st.faults.power_loss_images, "complete": st.complete}));
		if let Some(f) = found {
			let rendering = format!("scenario {} config {}\nhistory: {}\n{}: {}", f.scenario, f.cfg.short(), crate::core::hist_short(&f.history), f.fail.kind, f.fail.msg);
			if f.fail.kind == "machinery" || f.fail.kind == "model-divergence" {
				machinery_error(&rendering);
			}
			run.violation(found_to_json("C12", &f), &rendering);
		}
	}
	let imgs = run.coverage.get("crash_images").and_then(|v| v.as_u64()).unwrap_or(0);
	run.set("evaluations", json!(imgs));
	run.set("distinct_nontrivial", json!(run.coverage.get("distinct_crash_images_recovered").and_then(|v| v.as_u64()).unwrap_or(0)));
	run.finish()
}
