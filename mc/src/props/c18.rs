//! C18 — at most one live handle per database directory.

use crate::core::*;
use crate::crash;
use crate::exec::*;
use crate::par::{par_map, Item};
use crate::report::*;
use crate::search::{cleanup_scratch, hash_dir, nthreads, universe_of, worker_dir};
use parity_db::Db;
use serde_json::json;
use std::path::Path;

fn cfg() -> Config {
	Config::new(vec![ColSpec::hash(), ColSpec::btree()])
}

fn is_locked_err(e: &parity_db::Error) -> bool {
	matches!(e, parity_db::Error::Locked(_))
}

/// (a) all sequences of open / open_or_create / drop over three handle slots
fn run_sequence(seq: &[u8]) -> Result<(), String> {
	run_sequence_n(seq, 3)
}

/// `nact` = 3: actions open, open_or_create, drop; 4: also open_read_only (action 3)
fn run_sequence_n(seq: &[u8], nact: u8) -> Result<(), String> {
	let dir = worker_dir();
	let _ = std::fs::remove_dir_all(&dir);
	let opts = cfg().options(&dir);
	let mut slots: [Option<Db>; 3] = [None, None, None];
	let mut exists = false;
	for (step, a) in seq.iter().enumerate() {
		let slot = (*a / nact) as usize;
		let act = *a % nact;
		let live_other = slots.iter().enumerate().any(|(i, s)| i != slot && s.is_some());
		let what = format!("step {} of {:?}", step, seq);
		match act {
			2 => {
				slots[slot] = None; // drop
			},
			_ => {
				if slots[slot].is_some() {
					continue // slot occupied: action not applicable
				}
				let create = act == 1;
				let before = (std::fs::read_dir(&dir).map(|r| r.count()).unwrap_or(0), hash_dir(&dir));
				let r = std::panic::catch_unwind(std::panic::AssertUnwindSafe(|| if create { Db::open_or_create(&opts) } else if act == 3 { Db::open_read_only(&opts) } else { Db::open(&opts) }));
				let r = r.map_err(|e| format!("{}: open panicked: {}", what, panic_msg(e)))?;
				let expect_ok = !live_other && (create || exists);
				match (r, expect_ok) {
					(Ok(db), true) => {
						slots[slot] = Some(db);
						exists = true;
					},
					(Ok(_), false) => return Err(format!("{}: open succeeded while {}", what, if live_other { "another handle is alive" } else { "the database does not exist" })),
					(Err(e), true) => return Err(format!("{}: open failed although no handle is alive: {}", what, e)),
					(Err(e), false) => {
						if live_other && !is_locked_err(&e) {
							return Err(format!("{}: open while another handle is alive failed with '{}', not with a lock error", what, e))
						}
						let after = (std::fs::read_dir(&dir).map(|r| r.count()).unwrap_or(0), hash_dir(&dir));
						// a refused open changes nothing (the empty lock file may appear when the directory exists)
						if before.1 != after.1 {
							return Err(format!("{}: the refused open changed database files", what))
						}
						let _ = before.0;
					},
				}
			},
		}
	}
	Ok(())
}

/// (e) objects handed out by a handle that outlive it: a tree reader (it shares the handle's internals) kept, unlocked
/// or locked, past the drop of the handle; the directory must be free again once the handle is dropped
fn reader_outlives_handle(hold_lock: bool) -> Result<(), String> {
	use parity_db::{NewNode, Operation};
	let dir = worker_dir();
	let _ = std::fs::remove_dir_all(&dir);
	let c = Config::new(vec![ColSpec::hash(), ColSpec::tree()]);
	let opts = c.options(&dir);
	let db = Db::open_or_create(&opts).map_err(|e| format!("create: {}", e))?;
	let key = b"tree-1".to_vec();
	db.commit_changes(vec![(1u8, Operation::InsertTree(key.clone(), NewNode { data: vec![1, 2, 3], children: vec![] }))]).map_err(|e| format!("commit: {}", e))?;
	for st in [parity_db::verif::Stage::ProcessCommits, parity_db::verif::Stage::FlushLogs, parity_db::verif::Stage::EnactOne, parity_db::verif::Stage::CleanLogs] {
		db.verif_step(st).map_err(|e| format!("pipeline: {}", e))?;
	}
	let reader = db.get_tree(1, &key).map_err(|e| format!("get_tree: {}", e))?.ok_or("tree missing")?;
	let r2 = reader.clone();
	let guard = if hold_lock { Some(r2.read()) } else { None };
	drop(db);
	let what = if hold_lock { "a locked tree reader" } else { "a tree reader" };
	let second = std::panic::catch_unwind(std::panic::AssertUnwindSafe(|| Db::open(&opts))).map_err(|e| format!("open after drop with {} still alive panicked: {}", what, panic_msg(e)))?;
	match second {
		Ok(db2) => {
			let t = db2.get_tree(1, &key).map_err(|e| format!("get_tree after reopen: {}", e))?;
			if t.is_none() {
				return Err(format!("tree missing after reopen with {} of the dropped handle still alive", what))
			}
		},
		Err(e) => return Err(format!("the only handle was dropped, but with {} obtained from it still alive the directory cannot be opened again: {}", what, e)),
	}
	drop(guard);
	drop(reader);
	Ok(())
}

/// a directory holding synced-but-unapplied logs (so that open has recovery work to do)
fn pending_image(dir: &Path) -> Result<(Config, crate::model::Model, std::sync::Arc<Vec<Vec<Vec<u8>>>>), Fail> {
	let c = cfg();
	let k = |i: u32| B::pat(6, 8100 + i);
	let txs: Vec<Tx> = vec![
		vec![(0, Op::Set(k(1), B::pat(30, 1))), (1, Op::Set(k(1), B::pat(300, 2)))],
		vec![(0, Op::Set(k(2), B::pat(5000, 3))), (1, Op::Del(k(1)))],
	];
	let universe = universe_of(&c, &txs, &[]);
	let mut ex = Exec::new(dir, &c, universe.clone())?;
	for tx in txs.iter() {
		ex.commit(tx)?;
		ex.apply(&Ev::Stage(St::P))?;
		ex.apply(&Ev::Stage(St::F))?;
	}
	let model = ex.model.clone();
	ex.abandon();
	let _ = std::fs::remove_file(dir.join("lock"));
	Ok((c, model, universe))
}

/// (b) a second open attempted at every file-operation boundary of a first open that is recovering
fn second_open_during_recovery() -> Result<(u64, u64), String> {
	let dir = worker_dir();
	let (c, _model, _u) = pending_image(&dir).map_err(|f| f.msg)?;
	let opts = c.options(&dir);
	let attempts = std::sync::Arc::new(std::sync::Mutex::new((0u64, Vec::<String>::new())));
	let a2 = attempts.clone();
	let opts2 = opts.clone();
	let dir2 = dir.clone();
	*crash::ON_OP.lock().unwrap() = Some(Box::new(move |n, op| {
		let before = hash_dir(&dir2);
		let r = std::panic::catch_unwind(std::panic::AssertUnwindSafe(|| Db::open(&opts2)));
		let mut a = a2.lock().unwrap();
		a.0 += 1;
		match r {
			Err(e) => a.1.push(format!("second open at op #{} ({}) panicked: {}", n, op.short(), panic_msg(e))),
			Ok(Ok(_)) => a.1.push(format!("second open at op #{} ({}) of the first open's recovery SUCCEEDED", n, op.short())),
			Ok(Err(e)) =>
				if !is_locked_err(&e) {
					a.1.push(format!("second open at op #{} ({}) failed with '{}', not with a lock error", n, op.short(), e))
				},
		}
		if hash_dir(&dir2) != before {
			a.1.push(format!("second open at op #{} ({}) changed database files", n, op.short()));
		}
	}));
	crash::start(&dir);
	let first = Db::open(&opts);
	let ops = crash::stop();
	let first = first.map_err(|e| format!("first open failed: {}", e))?;
	// ... and at every file operation of the first handle's drop, which still has queued commits to log,
	// apply and clean up
	let k = |i: u32| B::pat(6, 8100 + i);
	first
		.commit_changes(vec![(0u8, parity_db::Operation::Set(k(5).bytes(), vec![7u8; 200])), (1u8, parity_db::Operation::Set(k(6).bytes(), vec![8u8; 40]))])
		.map_err(|e| format!("commit failed: {}", e))?;
	first.commit_changes(vec![(0u8, parity_db::Operation::Dereference(k(2).bytes()))]).map_err(|e| format!("commit failed: {}", e))?;
	crash::start(&dir);
	drop(first);
	let ops2 = crash::stop();
	*crash::ON_OP.lock().unwrap() = None;
	let ops: Vec<_> = ops.into_iter().chain(ops2.into_iter()).collect();
	// afterwards the directory opens again
	Db::open(&opts).map_err(|e| format!("open after the drop failed: {}", e))?;
	let a = attempts.lock().unwrap();
	if let Some(m) = a.1.first() {
		return Err(m.clone())
	}
	Ok((a.0, ops.iter().filter(|o| o.mutates()).count() as u64))
}

/// (c) another process holds the handle; it is killed at operation `k` of its recovery
fn other_process(k: usize) -> Result<bool, String> {
	let dir = worker_dir();
	let (c, model, universe) = pending_image(&dir).map_err(|f| f.msg)?;
	let opts = c.options(&dir);
	let mut fds = [0i32; 2];
	unsafe { libc::pipe(fds.as_mut_ptr()) };
	let pid = unsafe { libc::fork() };
	if pid == 0 {
		// child: open (recovery); stop at op k (or after the open if it has fewer ops) holding the handle
		unsafe { libc::close(fds[0]) };
		let wfd = fds[1];
		*crash::ON_OP.lock().unwrap() = Some(Box::new(move |n, _op| {
			if n == k {
				unsafe {
					libc::write(wfd, b"k".as_ptr() as *const libc::c_void, 1);
					loop {
						libc::pause();
					}
				}
			}
		}));
		crash::start(&dir);
		let db = Db::open(&opts);
		crash::stop();
		unsafe {
			libc::write(wfd, if db.is_ok() { b"o".as_ptr() } else { b"e".as_ptr() } as *const libc::c_void, 1);
			loop {
				libc::pause();
			}
		}
	}
	unsafe { libc::close(fds[1]) };
	let mut b = [0u8; 1];
	let n = unsafe { libc::read(fds[0], b.as_mut_ptr() as *mut libc::c_void, 1) };
	unsafe { libc::close(fds[0]) };
	let finish = |r: Result<bool, String>| {
		unsafe {
			libc::kill(pid, libc::SIGKILL);
			let mut st = 0;
			libc::waitpid(pid, &mut st, 0);
		}
		r
	};
	if n != 1 || b[0] == b'e' {
		return finish(Err("the child process could not open the database".into()))
	}
	let stopped_mid_recovery = b[0] == b'k';
	// while the other process is alive every open here must be refused with a lock error
	let before = hash_dir(&dir);
	match Db::open(&opts) {
		Ok(_) => return finish(Err(format!("open succeeded while another process holds the database (stopped at its op {})", k))),
		Err(e) if !is_locked_err(&e) => return finish(Err(format!("open while another process holds the database failed with '{}', not a lock error", e))),
		Err(_) => (),
	}
	if hash_dir(&dir) != before {
		return finish(Err("the refused open changed database files".into()))
	}
	// the process dies: the directory can be opened again and holds the committed data
	let _ = finish(Ok(true));
	let mut ex = Exec::detached(&dir, &c, universe);
	ex.model = model;
	ex.open(false).map_err(|f| format!("open after the holder was killed at its op {}: {}", k, f.msg))?;
	let r = ex.check().map_err(|f| format!("after the holder was killed at its op {}: {}", k, f.msg));
	let _ = ex.close();
	r?;
	Ok(stopped_mid_recovery)
}

pub fn run(tier: &str) -> ! {
	let mut run = Run::new("C18", tier, "model_checking");
	let len = if tier == "thorough" { 6 } else { 4 };
	// (a)
	let mut seqs: Vec<Vec<u8>> = vec![vec![]];
	let mut all: Vec<Vec<u8>> = vec![];
	for _ in 0..len {
		let mut next = vec![];
		for s in seqs.iter() {
			for a in 0..9u8 {
				let mut t = s.clone();
				t.push(a);
				next.push(t);
			}
		}
		seqs = next;
	}
	all.extend(seqs); // sequences of the full length cover their prefixes
	let chunk = 64;
	let nitems = (all.len() + chunk - 1) / chunk;
	let items = par_map(nitems, nthreads(), "c18", |it| {
		let mut bad = None;
		for s in &all[it * chunk..((it + 1) * chunk).min(all.len())] {
			if let Err(m) = run_sequence(s) {
				bad = Some(m);
				break
			}
		}
		(serde_json::to_vec(&json!({"bad": bad})).unwrap(), false)
	});
	let mut reported = false;
	for it in items {
		match it {
			Item::Done(b) => {
				let j: serde_json::Value = serde_json::from_slice(&b).unwrap();
				if let Some(m) = j["bad"].as_str() {
					if !reported {
						reported = true;
						run.violation(json!({"property": "C18", "engine": "handles", "message": m}), m);
					}
				}
			},
			Item::Crashed(w) => run.violation(json!({"property": "C18", "engine": "handles", "message": w}), &format!("process died during an open/drop sequence: {}", w)),
			Item::NotRun => (),
		}
	}
	// (a') the same with read-only opens as a fourth action (12 actions per step), one step shorter
	let len_ro = len - if tier == "thorough" { 1 } else { 0 };
	let mut seqs: Vec<Vec<u8>> = vec![vec![]];
	for _ in 0..len_ro {
		let mut next = vec![];
		for s in seqs.iter() {
			for a in 0..12u8 {
				// sequences without a read-only open are family (a)
				let mut t = s.clone();
				t.push(a);
				next.push(t);
			}
		}
		seqs = next;
	}
	let all_ro: Vec<Vec<u8>> = seqs.into_iter().filter(|s| s.iter().any(|a| a % 4 == 3)).collect();
	let nitems_ro = (all_ro.len() + chunk - 1) / chunk;
	let items = par_map(nitems_ro, nthreads(), "c18ro", |it| {
		let mut bad = None;
		for s in &all_ro[it * chunk..((it + 1) * chunk).min(all_ro.len())] {
			if let Err(m) = run_sequence_n(s, 4) {
				bad = Some(m);
				break
			}
		}
		(serde_json::to_vec(&json!({"bad": bad})).unwrap(), false)
	});
	for it in items {
		match it {
			Item::Done(b) => {
				let j: serde_json::Value = serde_json::from_slice(&b).unwrap();
				if let Some(m) = j["bad"].as_str() {
					if !reported {
						reported = true;
						run.violation(json!({"property": "C18", "engine": "handles", "message": m}), m);
					}
				}
			},
			Item::Crashed(w) => run.violation(json!({"property": "C18", "engine": "handles", "message": w}), &format!("process died during an open/drop sequence: {}", w)),
			Item::NotRun => (),
		}
	}
	// (b)
	let (attempts, rec_ops) = match crate::interpose::fresh_thread(second_open_during_recovery) {
		Ok(x) => x,
		Err(m) => {
			run.violation(json!({"property": "C18", "engine": "handles", "message": m}), &m);
			(0, 0)
		},
	};
	// (e)
	for hold in [false, true] {
		if let Err(m) = crate::interpose::fresh_thread(move || reader_outlives_handle(hold)) {
			run.violation(json!({"property": "C18", "engine": "handles", "message": m}), &m);
		}
	}
	// (c)
	let mut kills = 0u64;
	let mut mid = 0u64;
	let ks: Vec<usize> = (1..=(attempts as usize + 3)).collect();
	let items = par_map(ks.len(), nthreads(), "c18c", |i| match other_process(ks[i]) {
		Ok(m) => (serde_json::to_vec(&json!({"mid": m})).unwrap(), false),
		Err(m) => (serde_json::to_vec(&json!({"bad": m})).unwrap(), false),
	});
	let mut reported = false;
	for it in items {
		if let Item::Done(b) = it {
			let j: serde_json::Value = serde_json::from_slice(&b).unwrap();
			if let Some(m) = j["bad"].as_str() {
				if !reported {
					reported = true;
					run.violation(json!({"property": "C18", "engine": "handles", "message": m}), m);
				}
			} else {
				kills += 1;
				if j["mid"].as_bool().unwrap_or(false) {
					mid += 1;
				}
			}
		}
	}
	cleanup_scratch();
	run.set("states", json!((all.len() + all_ro.len()) as u64));
	run.set("transitions", json!(all.len() as u64 * len as u64 + all_ro.len() as u64 * len_ro as u64));
	run.set("traces_validated_against_impl", json!((all.len() + all_ro.len()) as u64));
	run.set("evaluations", json!((all.len() + all_ro.len()) as u64 + attempts + kills));
	run.set("distinct_nontrivial", json!((all.len() + all_ro.len()) as u64 + attempts + kills));
	run.set("second_open_attempts_during_recovery", json!(attempts));
	run.set("holder_process_killed_at_op", json!(kills));
	run.set("holder_killed_mid_recovery", json!(mid));
	run.set("rule", json!(format!("(a) every sequence of {} actions over {{open, open_or_create, drop}} x 3 handle slots in one process from a non-existent directory, against the model 'at most one live handle; open succeeds iff none is live (and the database exists or create is asked)'; a refused open must be a lock error (when a handle is live) and must leave every file byte unchanged; (a') every sequence of {} actions over {{open, open_or_create, open_read_only, drop}} x 3 slots that contains a read-only open ({} sequences), same model (a read-only handle is a live handle); (b) while a first open replays synced-but-unapplied logs, and while that handle is dropped with two commits still queued, a second open is attempted right after each of the {} mutating file operations of both (callback from the I/O recorder): always a lock error, no file changed; (c) a child process opens the same image and is stopped at file operation k of its recovery for every k (and after the open): the parent's open is refused with a lock error and changes nothing; the child is killed with SIGKILL; the parent's next open succeeds and shows all committed data; (e) a tree reader obtained from a handle (unlocked, and with its read lock held) outlives the handle: after the drop the directory opens again", len, len_ro, all_ro.len(), rec_ops)));
	run.sample(json!({"sequence": "open_or_create(slot0) open(slot1) drop(slot0) open(slot1)", "expected": "ok, Locked, -, ok"}));
	run.assumptions = vec!["flock semantics of this kernel; one machine".into()];
	run.finish()
}
