//! C03 — clean shutdown persists everything; synced log records survive crashes.

use crate::crashmc::CrashCfg;
use crate::props::c02::*;
use crate::report::*;
use crate::search::*;
use serde_json::json;

fn drop_scenario(name: &str, fam: (crate::core::Config, Vec<crate::core::Tx>, crate::core::Tx), n: usize, x: usize, tree: bool) -> Scenario {
	let mut s = scenario(name, fam, n, x, CrashCfg::default(), tree);
	s.crash = None;
	s
}

pub fn scenarios(tier: &str) -> Vec<Scenario> {
	let mut v = vec![];
	if tier == "thorough" {
		v.push(drop_scenario("drop-at-every-state/hash+btree/n3-x2", kv_family(), 3, 2, false));
		v.push(drop_scenario("drop-at-every-state/rc+tree/n3-x1", rc_tree_family(), 3, 1, true));
		v.push(drop_scenario("drop-at-every-state/hash/n4-x1", small_family(), 4, 1, false));
		v.push(scenario("crash-keeps-synced/hash/n3", small_family(), 3, 1, CrashCfg { torn: 2, recovery_depth: 2, ..Default::default() }, false));
		v.push(scenario("crash-keeps-synced/hash+btree/n3", kv_family(), 3, 0, CrashCfg { torn: 1, recovery_depth: 1, ..Default::default() }, false));
		v.push(scenario("crash-keeps-synced/rc+tree/n3", rc_tree_family(), 3, 0, CrashCfg { torn: 1, recovery_depth: 1, ..Default::default() }, true));
	} else {
		v.push(drop_scenario("drop-at-every-state/hash+btree/n2-x2", kv_family(), 2, 2, false));
		v.push(drop_scenario("drop-at-every-state/hash/n3-x1", small_family(), 3, 1, false));
		v.push(drop_scenario("drop-at-every-state/rc+tree/n2-x1", rc_tree_family(), 2, 1, true));
		v.push(scenario("crash-keeps-synced/hash/n3", small_family(), 3, 0, CrashCfg { torn: 1, recovery_depth: 1, ..Default::default() }, false));
		// counting column + multitree column with a shared node (reference-count records in the log)
		v.push(scenario("crash-keeps-synced/rc+tree/n2", rc_tree_family(), 2, 0, CrashCfg { torn: 0, recovery_depth: 1, ..Default::default() }, true));
	}
	// reindex batches pending at the moment of the drop / crash: C09's growth family (the commit that makes the index
	// grow, every stage schedule incl. reindex batches, reopen anywhere; crash points of every step of the growth)
	if tier == "thorough" {
		v.push(crate::props::c09::scenario("index-growth/drop-at-every-state/n2-x2", 1, 2, 2, None));
		v.push(crate::props::c09::scenario("index-growth/crash-keeps-synced/n1", 9, 1, 1, Some(CrashCfg { torn: 1, recovery_depth: 2, ..Default::default() })));
	} else {
		v.push(crate::props::c09::scenario("index-growth/crash-keeps-synced/n1", 9, 1, 0, Some(CrashCfg { torn: 0, recovery_depth: 1, ..Default::default() })));
	}
	v
}

pub fn run(tier: &str) -> ! {
	let mut run = Run::new("C03", tier, "fault_enumeration");
	let budget = Budget::new(if tier == "thorough" { 1500.0 } else { 150.0 });
	run.set("rule", json!("(a) drop at every pipeline state: the reopen event (drop the handle, open again) is offered at every state of the graph search (commits still queued, logged, synced, half-applied log files, several log files pending); after it every column must show all accepted commits in order (one family has an index growth with reindex batches pending). (b) crash lower bound: every crash image of every edge (see C02) is judged with lo = number of commits whose log record had been fdatasync'ed before the crash point (derived from the sync operations actually observed in the I/O trace and the pipeline model): recovery must not fall behind it"));
	run.assumptions = vec![
		"this part runs in stepping mode without background threads; the threaded drop is the loom part of the check (C03L, evidence C03-loom.json)".into(),
		"process-crash model for (b); power loss is C12".into(),
	];
	super::run_scenarios(&mut run, &scenarios(tier), &budget);
	let imgs = run.coverage.get("crash_images").and_then(|v| v.as_u64()).unwrap_or(0);
	let ex = run.coverage.get("evaluations").and_then(|v| v.as_u64()).unwrap_or(0);
	run.set("evaluations", json!(imgs + ex));
	let st = run.coverage.get("states").and_then(|v| v.as_u64()).unwrap_or(0);
	let di = run.coverage.get("distinct_crash_images_recovered").and_then(|v| v.as_u64()).unwrap_or(0);
	run.set("distinct_nontrivial", json!(st + di));
	run.finish()
}
