//! C14 — storage stays structurally sound: no orphan, double-used or leaked slot.
//! The independent file parser (`parser.rs`) runs at every quiescent state of insert/remove/overwrite histories
//! over all column kinds, after reopen, and after crash recovery.

use crate::core::*;
use crate::crashmc::CrashCfg;
use crate::exec::*;
use crate::props::c10::rk;
use crate::report::*;
use crate::search::*;
use serde_json::json;
use std::sync::Arc;

fn quiescent(ex: &Exec) -> bool {
	let d = ex.digest();
	d.commit_queue_len == 0 && !d.appending && d.read_queue == 0 && !d.reading && d.log_overlay_index + d.log_overlay_value + d.log_overlay_ref_count == 0
}

pub fn structure_post() -> Arc<PostFn> {
	Arc::new(|ex: &mut Exec, _hist: &[Ev]| {
		if !quiescent(ex) {
			return Ok(())
		}
		let rep = crate::parser::check_dir(&ex.dir, &ex.cfg, &ex.model);
		match rep.problems.first() {
			Some(p) => Err(Fail::new("structure", format!("{} ({} problems in all)", p, rep.problems.len()))),
			None => Ok(()),
		}
	})
}

fn k(i: u32) -> B {
	B::pat(6, 7100 + i)
}

fn sizes() -> [B; 3] {
	[B::pat(5, 1), B::pat(300, 2), B::pat(40_000, 3)] // the last one is stored as a chain of 4 KiB parts
}

fn kv_alphabet(keys: u32) -> Vec<Tx> {
	let mut a = vec![];
	for i in 0..keys {
		for v in sizes() {
			a.push(vec![(0u8, Op::Set(k(i), v))]);
		}
		a.push(vec![(0u8, Op::Del(k(i)))]);
	}
	a
}

fn rc_alphabet() -> Vec<Tx> {
	// the second key's value is stored as a chain of parts (releasing it must free every part)
	let k1 = k(1).bytes();
	let fv = move |k: &B| B::pat(if k.bytes() == k1 { 40_000 } else { 30 + (k.bytes()[0] % 3) as u32 * 100 }, fnv(&k.bytes(), 1) as u32);
	let mut a = vec![];
	for i in 0..2 {
		a.push(vec![(0u8, Op::Set(k(i), fv(&k(i))))]);
		a.push(vec![(0u8, Op::Ref(k(i)))]);
		a.push(vec![(0u8, Op::Del(k(i)))]);
	}
	a
}

fn tree_alphabet() -> Vec<Tx> {
	let t = |seed: u32, extra: Vec<ChildSpec>| {
		let mut ch = vec![ChildSpec::New(NodeSpec { data: B::pat(40, seed), children: vec![ChildSpec::New(NodeSpec::leaf(B::pat(3, seed + 1)))] })];
		ch.extend(extra);
		NodeSpec { data: B::pat(9, seed + 2), children: ch }
	};
	vec![
		vec![(0u8, Op::InsertTree(rk(1), t(10, vec![])))],
		vec![(0u8, Op::InsertTree(rk(2), t(20, vec![ChildSpec::Existing(rk(1), vec![0])])))],
		vec![(0u8, Op::InsertTree(rk(3), t(30, vec![ChildSpec::Existing(rk(1), vec![0, 0]), ChildSpec::Existing(rk(1), vec![0])])))],
		vec![(0u8, Op::DerefTree(rk(1)))],
		vec![(0u8, Op::DerefTree(rk(2)))],
		vec![(0u8, Op::DerefTree(rk(3)))],
		// four nodes of one size class: removing the tree puts several slots of one value table on the free list
		// (their order matters when the list is rebuilt at open and the slots are taken again)
		vec![(0u8, Op::InsertTree(rk(4), NodeSpec { data: B::pat(3, 40), children: (0..3).map(|i| ChildSpec::New(NodeSpec::leaf(B::pat(3, 41 + i)))).collect() }))],
		vec![(0u8, Op::DerefTree(rk(4)))],
	]
}

fn drained(mut s: Scenario, extra_filter: Option<Arc<FilterFn>>) -> Scenario {
	s.stages = vec![];
	s.drain_event = true;
	s.pm = false;
	s.filter = Some(Arc::new(move |hist: &[Ev], ev: &Ev| {
		let ok = match (hist.last(), ev) {
			(Some(Ev::Commit(_)), Ev::Drain) => true,
			(Some(Ev::Commit(_)), _) => false,
			(_, Ev::Drain) => false,
			_ => true,
		};
		ok && extra_filter.as_ref().map_or(true, |f| f(hist, ev))
	}));
	s
}

fn scenario(name: &str, spec: ColSpec, alpha: Vec<Tx>, n: usize, x: usize, stages: bool) -> Scenario {
	let cfg = Config::new(vec![spec.clone()]);
	let mut s = Scenario::new(name, cfg.clone(), alpha.clone());
	s.universe = universe_of(&cfg, &alpha, &[]);
	s.max_commits = n;
	s.max_rejects = 1;
	s.max_reopen = x;
	s.check_iter_rc = false;
	s.post = Some(structure_post());
	let tf = if spec.multitree { Some(crate::props::c10::tree_filter(spec.ref_counted, spec.append_only)) } else { None };
	if stages {
		s.filter = tf;
		s
	} else {
		drained(s, tf)
	}
}

pub fn scenarios(tier: &str) -> Vec<Scenario> {
	let lz4 = ColSpec { compression: 1, ..ColSpec::hash() };
	if tier == "thorough" {
		vec![
			scenario("hash/steady-state-d6", ColSpec::hash(), kv_alphabet(2), 6, 1, false),
			scenario("hash/3-keys-d4", ColSpec::hash(), kv_alphabet(3), 4, 1, false),
			scenario("hash+lz4/d4", lz4, kv_alphabet(2), 4, 1, false),
			scenario("btree/steady-state-d5", ColSpec::btree(), kv_alphabet(2), 5, 1, false),
			scenario("rc/d5", ColSpec::rc(), rc_alphabet(), 5, 1, false),
			scenario("multitree/d5", ColSpec::tree(), tree_alphabet(), 5, 1, false),
			scenario("hash/stages-n3", ColSpec::hash(), kv_alphabet(1), 3, 1, true),
			scenario("multitree/stages-n3", ColSpec::tree(), tree_alphabet(), 3, 1, true),
		]
	} else {
		vec![
			scenario("hash/steady-state-d4", ColSpec::hash(), kv_alphabet(2), 4, 1, false),
			scenario("btree/steady-state-d3", ColSpec::btree(), kv_alphabet(2), 3, 1, false),
			scenario("rc/d4", ColSpec::rc(), rc_alphabet(), 4, 1, false),
			scenario("multitree/d4", ColSpec::tree(), tree_alphabet(), 4, 1, false),
			scenario("hash/stages-n2", ColSpec::hash(), kv_alphabet(1), 2, 1, true),
		]
	}
}

/// many keys: btree of depth >= 2 grown and shrunk again (height changes), checked by the parser after each round
fn btree_rounds() -> Scenario {
	let key = |i: u32| B::Hex(format!("r{:04}", i).into_bytes());
	let ins: Tx = (0..120).map(|i| (0u8, Op::Set(key(i), B::pat(20 + i % 7, i)))).collect();
	let del: Tx = (0..120).map(|i| (0u8, Op::Del(key(i)))).collect();
	let del_most: Tx = (1..120).map(|i| (0u8, Op::Del(key(i)))).collect();
	scenario("btree/grow-and-shrink-rounds", ColSpec::btree(), vec![ins, del, del_most], 4, 1, false)
}

/// two index growths queued behind each other: from a full index page, the 65th key starts a growth (16 -> 17 bits);
/// before any migration 64 more keys of the same page follow and overflow the page of the 17-bit index (17 -> 18 bits)
/// while the first old index is still waiting; then everything is drained (both migrations) and the files are parsed
fn growth_queued() -> Scenario {
	growth_queued_on(false)
}

/// `rc`: on a reference-counted column (C07: every key keeps count 1 and must stay readable), without the file parser
pub fn growth_queued_on(rc: bool) -> Scenario {
	use crate::props::c09::page_key;
	const C: u16 = 0x1234;
	let mut spec = ColSpec::hash();
	spec.uniform = true;
	spec.ref_counted = rc;
	spec.preimage = rc;
	let mut cfg = Config::new(vec![spec]);
	cfg.salt = 0;
	let val = |i: u32| B::pat(8 + (i % 3) * 20, 7000 + i);
	// (rc variant: the 64 keys of the fill lie in the upper half of the page, key A and the 64 keys of B in the lower
	// half: B overflows the lower half's page of the 17-bit index at commit time, while the 16-bit index still waits)
	let (fill_r, a_i, b_r) = if rc { (128..192u8, 0u8, 1..65u8) } else { (0..64u8, 64u8, 65..129u8) };
	let fill: Tx = fill_r.map(|i| (0u8, Op::Set(page_key(C, i), val(i as u32)))).collect();
	let a: Tx = vec![(0, Op::Set(page_key(C, a_i), val(a_i as u32)))];
	let b: Tx = b_r.map(|i| (0u8, Op::Set(page_key(C, i), val(i as u32)))).collect();
	let alpha = vec![a, b];
	let mut all = alpha.clone();
	all.push(fill.clone());
	let mut s = Scenario::new(if rc { "rc-hash/two-index-growths-queued" } else { "hash/two-index-growths-queued" }, cfg.clone(), alpha);
	s.universe = universe_of(&cfg, &all, &[]);
	s.init = vec![Ev::Commit(fill), Ev::Drain];
	s.max_commits = 2;
	s.max_rejects = 0;
	s.max_reopen = 1;
	s.check_iter_rc = false;
	s.pm = false;
	s.stages = vec![St::P];
	s.drain_event = true;
	if !rc {
		s.post = Some(structure_post());
	}
	// commit A, P, commit B, P, drain, reopen: one path
	s.filter = Some(Arc::new(|hist: &[Ev], ev: &Ev| {
		let commits = hist.iter().filter(|e| matches!(e, Ev::Commit(_))).count();
		match (hist.last(), ev) {
			(None, Ev::Commit(t)) => t.len() == 1,
			(Some(Ev::Commit(_)), Ev::Stage(St::P)) => true,
			(Some(Ev::Stage(St::P)), Ev::Commit(t)) => commits == 1 && t.len() > 1,
			(Some(Ev::Stage(St::P)), Ev::Drain) => commits == 2,
			(Some(Ev::Drain), Ev::Reopen) => true,
			_ => false,
		}
	}));
	s
}

pub fn run(tier: &str) -> ! {
	let mut run = Run::new("C14", tier, "model_checking");
	let budget = Budget::new(if tier == "thorough" { 1500.0 } else { 150.0 });
	run.set("rule", json!("graph search over insert / overwrite-across-size-classes / remove histories (2-3 keys x {5 B, 300 B, 9000 B chained}; set/ref/deref on a counting column; trees sharing nodes, dereferenced in every order; a btree grown to depth >= 2 and shrunk again; two index growths queued behind each other and then drained), the pipeline drained after every commit (plus stage-interleaved variants), with reopen; at every quiescent state an independent parser reads the files: free lists acyclic, in range, tombstones only; every index entry resolves to a keyed value (inert leftovers only after growth); btree walked from its header: keys strictly ascending, every leaf at the recorded depth, values read; tree nodes walked from the roots, parents counted and compared with the ref-count table; every slot below each table's fill mark is in exactly one live chain or on the free list exactly once (no leak, no double use); counts and values equal the model's. A crash scenario runs the same parser after recovery + clean drop"));
	run.assumptions = vec!["the parser is written from the format comments and shares no code with the implementation; size classes come from a hook and are cross-checked against file names and sizes".into()];
	let mut scns = scenarios(tier);
	scns.push(btree_rounds());
	scns.push(growth_queued());
	// after crash recovery
	let hash_crash_alpha: Vec<Tx> = if tier == "thorough" { kv_alphabet(1) } else { kv_alphabet(1).into_iter().skip(1).collect() };
	let mut c = scenario("hash/after-crash-recovery-n2", ColSpec::hash(), hash_crash_alpha, 2, 0, true);
	c.crash = Some(CrashCfg { torn: 0, recovery_depth: 1, suffix: Some(vec![(0, Op::Set(k(9), B::pat(300, 9)))]), parse_after: true, ..Default::default() });
	c.universe = universe_of(&c.cfg, &kv_alphabet(1), &[(0, k(9))]);
	scns.push(c);
	let tree_crash_alpha: Vec<Tx> = if tier == "thorough" { tree_alphabet() } else { vec![tree_alphabet()[0].clone(), tree_alphabet()[1].clone(), tree_alphabet()[3].clone()] };
	let mut t = scenario("multitree/after-crash-recovery-n2", ColSpec::tree(), tree_crash_alpha, 2, 0, true);
	t.crash = Some(CrashCfg { torn: 0, recovery_depth: 1, suffix: None, parse_after: true, ..Default::default() });
	scns.push(t);
	super::run_scenarios(&mut run, &scns, &budget);
	run.finish()
}
