//! C07 — reference-counted columns keep a value exactly while its count is positive.

use crate::core::*;
use crate::report::*;
use crate::search::*;
use serde_json::json;

fn key(i: u32) -> B {
	B::pat(8, 500 + i)
}
fn fval(k: &B) -> B {
	let kb = k.bytes();
	B::pat(24 + (kb[0] % 16) as u32, fnv(&kb, 7) as u32)
}

pub fn alphabet(size: u8) -> Vec<Tx> {
	let (k1, k2) = (key(1), key(2));
	let set = |k: &B| (0u8, Op::Set(k.clone(), fval(k)));
	let mut a: Vec<Tx> = vec![
		vec![set(&k1)],
		vec![(0, Op::Ref(k1.clone()))],
		vec![(0, Op::Del(k1.clone()))],
	];
	if size >= 1 {
		a.push(vec![set(&k1), set(&k1)]);
		a.push(vec![set(&k1), (0, Op::Del(k1.clone()))]);
		a.push(vec![(0, Op::Del(k1.clone())), (0, Op::Del(k1.clone()))]);
		a.push(vec![(0, Op::Ref(k2.clone()))]);
	}
	if size >= 2 {
		a.push(vec![set(&k2), (0, Op::Ref(k1.clone()))]);
		a.push(vec![(0, Op::Del(k2.clone())), set(&k1)]);
		a.push(vec![(0, Op::Ref(k1.clone())), (0, Op::Ref(k1.clone())), (0, Op::Del(k1.clone()))]);
	}
	a
}

fn scenario(name: &str, btree: bool, size: u8, n: usize, x: usize) -> Scenario {
	let mut spec = ColSpec::rc();
	spec.btree = btree;
	let cfg = Config::new(vec![spec]);
	let alpha = alphabet(size);
	let more = vec![(0u8, key(1)), (0u8, key(2))];
	let mut s = Scenario::new(name, cfg.clone(), alpha.clone());
	s.universe = universe_of(&cfg, &alpha, &more);
	s.max_commits = n;
	s.max_reopen = x;
	s
}

/// ref-counted hash column with identity hashing: two keys equal in every bit the index stores (collision chain)
fn chain_scenario(name: &str, n: usize, x: usize) -> Scenario {
	let mut spec = ColSpec::rc();
	spec.uniform = true;
	let mut cfg = Config::new(vec![spec]);
	cfg.salt = 0;
	let ka = crate::props::c09::chain_key(0x2222, 1);
	let kb = crate::props::c09::chain_key(0x2222, 2);
	let set = |k: &B| (0u8, Op::Set(k.clone(), fval(k)));
	let alpha: Vec<Tx> = vec![
		vec![set(&ka), set(&kb)],
		vec![set(&kb)],
		vec![(0, Op::Ref(kb.clone()))],
		vec![(0, Op::Del(kb.clone()))],
		vec![(0, Op::Del(ka.clone()))],
	];
	let mut s = Scenario::new(name, cfg.clone(), alpha.clone());
	s.universe = universe_of(&cfg, &alpha, &[]);
	s.max_commits = n;
	s.max_reopen = x;
	s
}

/// Reference counting combined with index growth: C09's growth family on a counting column (a repeated set raises the
/// count, a removal lowers it). Commits in order: the 65th key of a full page (growth), then two more keys of the same
/// half (the page of the new index overflows when the old entries are moved: a second growth started by a migration
/// batch), with all stage and reindex-batch interleavings. A key with a positive count must stay readable throughout.
fn growth_scenario(name: &str, x: usize, max_r: usize) -> Scenario {
	let mut s = crate::props::c09::scenario(name, 1, 2, x, None);
	s.cfg.cols[0].ref_counted = true;
	s.cfg.cols[0].preimage = true;
	let a = s.alphabet.clone();
	s.alphabet = vec![a[0].clone(), a[3].clone()];
	s.check_iter_rc = false; // value iteration at intermediate states: known finding F-C07-iter-lag, judged by the other scenarios
	let a2 = s.alphabet.clone();
	// every record is driven through the pipeline in order (P, F, E); reindex batches, cleanup and the second commit
	// may come after any enact step
	s.filter = Some(std::sync::Arc::new(move |hist: &[Ev], ev: &Ev| {
		let rs = hist.iter().filter(|e| matches!(e, Ev::Stage(St::R))).count();
		let k = hist.iter().filter(|e| matches!(e, Ev::Commit(_))).count();
		let es = hist.iter().rev().take_while(|e| matches!(e, Ev::Stage(St::E))).count();
		let next_commit = |tx: &Tx| a2.get(k).map_or(false, |t| format!("{:?}", t) == format!("{:?}", tx));
		match (hist.last(), ev) {
			(None, Ev::Commit(tx)) => next_commit(tx),
			(Some(Ev::Commit(_)), Ev::Stage(St::P)) => true,
			(Some(Ev::Stage(St::P)), Ev::Stage(St::F)) => true,
			(Some(Ev::Stage(St::R)), Ev::Stage(St::F)) => true,
			(Some(Ev::Stage(St::F)), Ev::Stage(St::E)) => true,
			(Some(Ev::Stage(St::E)), Ev::Stage(St::E)) => es < 2,
			(Some(Ev::Stage(St::E)) | Some(Ev::Stage(St::K)), Ev::Stage(St::R)) => rs < max_r,
			(Some(Ev::Stage(St::E)), Ev::Stage(St::K)) => true,
			(Some(Ev::Stage(St::E)) | Some(Ev::Stage(St::K)) | Some(Ev::Reopen), Ev::Commit(tx)) => next_commit(tx),
			(Some(Ev::Stage(St::K)), Ev::Reopen) => true,
			_ => false,
		}
	}));
	s
}

pub fn scenarios(tier: &str) -> Vec<Scenario> {
	if tier == "thorough" {
		vec![
			scenario("rc-hash/n4", false, 0, 4, 1),
			scenario("rc-hash/n3-full", false, 2, 3, 1),
			scenario("rc-btree/n3-full", true, 2, 3, 1),
			scenario("rc-hash/n2-x2", false, 2, 2, 2),
			chain_scenario("rc-hash-collision-chain/n4", 4, 1),
			growth_scenario("rc-hash/index-growth-twice/n2-in-order", 1, 8),
			crate::props::c14::growth_queued_on(true),
		]
	} else {
		vec![
			scenario("rc-hash/n3", false, 1, 3, 1),
			scenario("rc-hash/n2-full", false, 2, 2, 1),
			scenario("rc-btree/n3", true, 0, 3, 1),
			scenario("rc-btree/n2-full", true, 2, 2, 1),
			chain_scenario("rc-hash-collision-chain/n3", 3, 1),
			growth_scenario("rc-hash/index-growth-twice/n2-in-order", 1, 6),
			crate::props::c14::growth_queued_on(true),
		]
	}
}

pub fn run(tier: &str) -> ! {
	let mut run = Run::new("C07", tier, "model_checking");
	let budget = Budget::new(if tier == "thorough" { 1500.0 } else { 100.0 });
	run.set("rule", json!("graph search over histories of set/reference/dereference transactions x pipeline-stage events x reopen on a ref-counted column (hash and btree index); model = map key -> (value, count); oracle after every event: count>0 => readable with its value; when the commit queue is empty (all accepted commits logged) and after reopen: readable <=> count>0 and (hash index) iter_column_while = multiset of live (value,count)"));
	run.assumptions = vec!["value is a function of the key (preimage contract)".into()];
	super::run_scenarios(&mut run, &scenarios(tier), &budget);
	run.finish()
}
