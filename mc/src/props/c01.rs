//! C01 — hash columns are a key-value map at every stage of the write pipeline.

use crate::core::*;
use crate::report::*;
use crate::search::*;
use serde_json::json;

pub fn keys(uniform: bool) -> Vec<B> {
	if uniform {
		// a 32-byte key P, P extended by one byte, P extended by 8 other bytes (three distinct keys that share
		// their first 32 bytes), and an unrelated 32-byte key
		let p = B::pat(32, 101).bytes();
		let mut p1 = p.clone();
		p1.push(b'a');
		let mut p8 = p.clone();
		p8.extend_from_slice(b"bcdefghi");
		vec![B::Hex(p), B::Hex(p1), B::Hex(p8), B::pat(32, 102)]
	} else {
		// "", "a", a 300-byte key, a key differing from "a" in the last byte
		vec![B::lit(b""), B::lit(b"a"), B::pat(300, 7), B::lit(b"b")]
	}
}

pub fn values() -> Vec<B> {
	vec![B::pat(4, 1), B::pat(40, 2), B::zpat(5000, 3), B::pat(40000, 4)]
}

/// value determined by key (preimage contract)
fn fval(k: &B) -> B {
	let kb = k.bytes();
	B::pat(20 + (kb.len() % 40) as u32, fnv(&kb, 99) as u32)
}

pub fn alphabet(spec: &ColSpec, ncols: u8, full: bool) -> Vec<Tx> {
	alphabet_sized(spec, ncols, if full { 2 } else { 1 })
}

/// size 0: the three simplest transactions; 1: + repeated key inside one transaction; 2: everything
pub fn alphabet_sized(spec: &ColSpec, ncols: u8, size: u8) -> Vec<Tx> {
	let full = size >= 2;
	let ks = keys(spec.uniform);
	let vs = values();
	let (k1, k2) = (ks[0].clone(), ks[1].clone());
	let klong = ks[2].clone();
	let mut a: Vec<Tx> = vec![];
	if spec.preimage {
		a.push(vec![(0, Op::Set(k1.clone(), fval(&k1)))]);
		a.push(vec![(0, Op::Del(k1.clone()))]);
		a.push(vec![(0, Op::Set(k2.clone(), fval(&k2)))]);
		if size >= 1 {
			a.push(vec![(0, Op::Set(k1.clone(), fval(&k1))), (0, Op::Del(k1.clone()))]);
			a.push(vec![(0, Op::Del(k1.clone())), (0, Op::Set(k1.clone(), fval(&k1)))]);
		}
		if full {
			a.push(vec![(0, Op::Set(k1.clone(), fval(&k1))), (0, Op::Set(klong.clone(), fval(&klong)))]);
			a.push(vec![(0, Op::Del(klong.clone())), (0, Op::Del(k2.clone()))]);
		}
	} else {
		a.push(vec![(0, Op::Set(k1.clone(), vs[0].clone()))]);
		a.push(vec![(0, Op::Del(k1.clone()))]);
		a.push(vec![(0, Op::Set(k1.clone(), vs[1].clone()))]);
		if size >= 1 {
			a.push(vec![(0, Op::Set(k1.clone(), vs[0].clone())), (0, Op::Set(k1.clone(), vs[2].clone()))]);
			a.push(vec![(0, Op::Set(k1.clone(), vs[1].clone())), (0, Op::Del(k1.clone()))]);
		}
		if full {
			a.push(vec![(0, Op::Del(k1.clone())), (0, Op::Set(k1.clone(), vs[0].clone()))]);
			a.push(vec![(0, Op::Set(k1.clone(), vs[0].clone())), (0, Op::Set(k2.clone(), vs[1].clone()))]);
			a.push(vec![(0, Op::Del(k2.clone()))]);
			a.push(vec![(0, Op::Set(klong.clone(), vs[3].clone()))]);
			a.push(vec![(0, Op::Set(klong.clone(), vs[0].clone())), (0, Op::Del(k2.clone()))]);
		}
	}
	if ncols > 1 {
		let v = if spec.preimage { fval(&k1) } else { vs[1].clone() };
		let v0 = if spec.preimage { fval(&k1) } else { vs[0].clone() };
		a.push(vec![(0, Op::Set(k1.clone(), v0)), (1, Op::Set(k1.clone(), v))]);
		a.push(vec![(1, Op::Del(k1.clone()))]);
	}
	a
}

fn scenario(name: &str, spec: ColSpec, ncols: u8, size: u8, n: usize, x: usize) -> Scenario {
	let cfg = Config::new((0..ncols).map(|_| spec.clone()).collect());
	let alpha = alphabet_sized(&spec, ncols, size);
	let more: Vec<(u8, B)> = (0..ncols).flat_map(|c| keys(spec.uniform).into_iter().map(move |k| (c, k))).collect();
	let mut s = Scenario::new(name, cfg.clone(), alpha.clone());
	s.universe = universe_of(&cfg, &alpha, &more);
	s.max_commits = n;
	s.max_reopen = x;
	s
}

pub fn scenarios(tier: &str) -> Vec<Scenario> {
	let mut v = vec![];
	let thorough = tier == "thorough";
	for uniform in [false, true] {
		for preimage in [false, true] {
			for comp in [0u8, 1, 2] {
				let spec = ColSpec { uniform, preimage, compression: comp, ..Default::default() };
				let base = !preimage && comp == 0;
				let name = format!("{}{}{}", if uniform { "uniform" } else { "hashed" }, if preimage { "+preimage" } else { "" },
					match comp { 1 => "+lz4", 2 => "+snappy", _ => "" });
				if thorough {
					v.push(scenario(&format!("{}/n3-full", name), spec.clone(), 1, 2, 3, 1));
					if base {
						v.push(scenario(&format!("{}/n4", name), spec.clone(), 1, 0, 4, 1));
						v.push(scenario(&format!("{}/2col-n3", name), spec.clone(), 2, 1, 3, 1));
						v.push(scenario(&format!("{}/n2-x2", name), spec.clone(), 1, 2, 2, 2));
					}
				} else {
					if base {
						v.push(scenario(&format!("{}/n3", name), spec.clone(), 1, 0, 3, 1));
						v.push(scenario(&format!("{}/n2-full", name), spec.clone(), 1, 2, 2, 1));
						let mut s2 = scenario(&format!("{}/2col-n2", name), spec.clone(), 2, 0, 2, 1);
						s2.merge_check = true; // quick tier: the state identity is validated on this scenario (thorough: on all)
						v.push(s2);
					} else {
						v.push(scenario(&format!("{}/n2", name), spec.clone(), 1, 1, 2, 1));
					}
				}
			}
		}
	}
	// longer histories with every commit drained (no stage interleaving): slots of one size class freed and taken again
	// by other keys, clean reopen in between (the free list as persisted must be the free list in memory)
	{
		let kk = |i: u32| B::pat(7, 3300 + i);
		let cfg = Config::new(vec![ColSpec::hash()]);
		let mut alpha: Vec<Tx> = vec![];
		for i in 0..3 {
			alpha.push(vec![(0, Op::Set(kk(i), B::pat(10, 40 + i)))]);
			alpha.push(vec![(0, Op::Del(kk(i)))]);
		}
		alpha.push(vec![(0, Op::Set(kk(0), B::pat(10, 50))), (0, Op::Del(kk(1)))]);
		let n = if thorough { 6 } else { 4 };
		let mut s = Scenario::new(&format!("hashed/drained-slot-reuse-d{}", n), cfg.clone(), alpha.clone());
		s.universe = universe_of(&cfg, &alpha, &[]);
		s.max_commits = n;
		s.max_rejects = 0;
		s.max_reopen = 1;
		s.stages = vec![];
		s.drain_event = true;
		s.pm = false;
		s.filter = Some(std::sync::Arc::new(|hist: &[Ev], ev: &Ev| match (hist.last(), ev) {
			(Some(Ev::Commit(_)), Ev::Drain) => true,
			(Some(Ev::Commit(_)), _) => false,
			(_, Ev::Drain) => false,
			_ => true,
		}));
		v.push(s);
	}
	// while the index grows: a key still in the old index is removed / replaced, chain members go to the new index,
	// two commits may be queued before the first is processed (commit ids and record ids have drifted apart: the
	// reindex batches take record ids of their own)
	v.push(crate::props::c09::pending_scenario(if thorough { "uniform/index-growth-pending/n3" } else { "uniform/index-growth-pending/n2" }, if thorough { 3 } else { 2 }, if thorough { 1 } else { 0 }));
	v
}

pub fn run(tier: &str) -> ! {
	let mut run = Run::new("C01", tier, "model_checking");
	let budget = Budget::new(if tier == "thorough" { 1500.0 } else { 100.0 });
	let scns = scenarios(tier);
	run.set("rule", json!("breadth-first graph search over histories (commit from alphabet | stage P,R,F,E,K | reopen), one execution of the real Db per edge; a state is distinct by (in-memory digest, file bytes, model state, pipeline-model state); non-trivial = every state differs from all others in that identity"));
	run.assumptions = vec![
		"stepping mode: instrumentation feature, with_background_thread=false (no real threads)".into(),
		"bounds: commits per history, reopen events and alphabets as listed per scenario in coverage.parts".into(),
		"state merging is sound iff equal identity implies equal futures (digest field list: DESIGN.md H4)".into(),
	];
	super::run_scenarios(&mut run, &scns, &budget);
	run.finish()
}
