//! C06 — values of every size and compressibility are returned bit-exact; storage is released.
//! E1 sweep mode: one-parameter families instead of a tree of histories.

use crate::core::*;
use crate::exec::*;
use crate::par::{par_map, Item};
use crate::report::*;
use crate::search::{cleanup_scratch, nthreads, worker_dir};
use serde_json::json;
use std::collections::{BTreeMap, BTreeSet};
use std::sync::Arc;

#[derive(Clone, Debug)]
struct Cfg {
	name: String,
	col: ColSpec,
}

fn cfgs(tier: &str) -> Vec<Cfg> {
	let mut v = vec![];
	let mk = |name: &str, col: ColSpec| Cfg { name: name.into(), col };
	let comp = |c: u8, thr: Option<u32>, base: ColSpec| ColSpec { compression: c, compression_threshold: thr, ..base };
	if tier == "thorough" {
		for (bn, base) in [("hash", ColSpec::hash()), ("btree", ColSpec::btree()), ("rc", ColSpec::rc())] {
			v.push(mk(&format!("{}/none", bn), base.clone()));
			for (cn, c) in [("lz4", 1u8), ("snappy", 2u8)] {
				for (tn, thr) in [("thr0", Some(0u32)), ("default", None), ("max", Some(u32::MAX))] {
					v.push(mk(&format!("{}/{}-{}", bn, cn, tn), comp(c, thr, base.clone())));
				}
			}
		}
	} else {
		v.push(mk("hash/none", ColSpec::hash()));
		v.push(mk("hash/lz4-default", comp(1, None, ColSpec::hash())));
		v.push(mk("btree/snappy-thr0", comp(2, Some(0), ColSpec::btree())));
		v.push(mk("rc/none", ColSpec::rc()));
	}
	v
}

/// Every length within +-1 of a size-class or part boundary for any header layout.
fn boundary_lengths() -> BTreeSet<u32> {
	let sizes = parity_db::verif::constants().sizes;
	let mut s = BTreeSet::new();
	let overheads = [2i64, 6, 28, 32]; // size | size+refs | size+key | size+refs+key
	for sz in sizes.iter() {
		for h in overheads {
			for d in -1..=1 {
				let l = *sz as i64 - h + d;
				if l >= 0 {
					s.insert(l as u32);
				}
			}
		}
	}
	// multipart: first part holds 4096-10-h', continuation parts 4086, last part up to 4094
	for h in [0i64, 4, 26, 30] {
		for p in 1..=18i64 {
			for last in [4086i64, 4094] {
				let base = (4086 - h) + 4086 * (p - 1) + (last - 4086);
				for d in -2..=2 {
					let l = base + d;
					if l >= 0 && l <= 75_000 {
						s.insert(l as u32);
					}
				}
			}
		}
	}
	for l in [0u32, 1, 2, 3] {
		s.insert(l);
	}
	s
}

fn key_for(col: &ColSpec, l: u32, tag: u32) -> B {
	let _ = col;
	B::pat(9, 77_000_000 + l * 4 + tag)
}

/// value of length l; kind 0 incompressible, 1 compressible. For preimage columns the value is a function of
/// the key (it is: both derive from l and kind).
fn val_for(l: u32, kind: u8) -> B {
	B::Pat { len: l, seed: l ^ 0x5eed, kind }
}

fn fail_json(cfg: &Cfg, what: &str, f: &Fail) -> serde_json::Value {
	json!({"bad": format!("config {}: {}: {}: {}", cfg.name, what, f.kind, f.msg)})
}

/// Insert every length of `lens` (both content classes), drain, read back; reopen; read back again.
fn sweep_chunk(cfg: &Cfg, lens: &[u32]) -> serde_json::Value {
	let c = Config::new(vec![cfg.col.clone()]);
	let dir = worker_dir();
	let r = crate::interpose::fresh_thread(|| -> Result<u64, (String, Fail)> {
		let mut ex = Exec::new(&dir, &c, Arc::new(vec![vec![]])).map_err(|f| ("open".to_string(), f))?;
		let mut n = 0u64;
		let mut all: Vec<(Vec<u8>, u32, u8)> = vec![];
		for chunk in lens.chunks(48) {
			let mut tx: Tx = vec![];
			for l in chunk {
				for kind in [0u8, 1] {
					tx.push((0, Op::Set(key_for(&cfg.col, *l, kind as u32), val_for(*l, kind))));
					all.push((key_for(&cfg.col, *l, kind as u32).bytes(), *l, kind));
				}
			}
			ex.commit(&tx).map_err(|f| (format!("commit of lengths {:?}", chunk), f))?;
			ex.drain().map_err(|f| (format!("drain after lengths {:?}", chunk), f))?;
			for l in chunk {
				for kind in [0u8, 1] {
					check_one(&ex, &key_for(&cfg.col, *l, kind as u32).bytes(), Some((*l, kind))).map_err(|f| (format!("length {} kind {}", l, kind), f))?;
					n += 1;
				}
			}
		}
		ex.apply(&Ev::Reopen).map_err(|f| ("reopen".to_string(), f))?;
		for (k, l, kind) in all.iter() {
			check_one(&ex, k, Some((*l, *kind))).map_err(|f| (format!("after reopen: length {} kind {}", l, kind), f))?;
			n += 1;
		}
		ex.close().map_err(|f| ("close".to_string(), f))?;
		Ok(n)
	});
	match r {
		Ok(n) => json!({"n": n}),
		Err((what, f)) => fail_json(cfg, &what, &f),
	}
}

/// The same values through the recovery path: committed, logged and flushed but never applied; the directory is copied
/// as a crash would leave it and the copy is opened: every record goes through replay (validation + enactment), then every
/// value is read back. (Replay has size checks of its own that the live pipeline does not pass through.)
fn replay_chunk(cfg: &Cfg, lens: &[u32]) -> serde_json::Value {
	let c = Config::new(vec![cfg.col.clone()]);
	let dir = worker_dir();
	let img = dir.with_extension("img");
	let r = crate::interpose::fresh_thread(|| -> Result<u64, (String, Fail)> {
		let mut ex = Exec::new(&dir, &c, Arc::new(vec![vec![]])).map_err(|f| ("open".to_string(), f))?;
		let mut all: Vec<(Vec<u8>, u32, u8)> = vec![];
		for chunk in lens.chunks(48) {
			let mut tx: Tx = vec![];
			for l in chunk {
				for kind in [0u8, 1] {
					tx.push((0, Op::Set(key_for(&cfg.col, *l, kind as u32), val_for(*l, kind))));
					all.push((key_for(&cfg.col, *l, kind as u32).bytes(), *l, kind));
				}
			}
			ex.commit(&tx).map_err(|f| (format!("commit of lengths {:?}", chunk), f))?;
			while ex.digest().commit_queue_len > 0 {
				ex.apply(&Ev::Stage(St::P)).map_err(|f| (format!("logging lengths {:?}", chunk), f))?;
			}
			ex.apply(&Ev::Stage(St::F)).map_err(|f| (format!("flushing the log of lengths {:?}", chunk), f))?;
		}
		wipe_dir(&img);
		for e in std::fs::read_dir(&dir).unwrap().filter_map(|e| e.ok()) {
			if e.file_name() != "lock" {
				std::fs::copy(e.path(), img.join(e.file_name())).map_err(|e| ("copying the directory".to_string(), Fail::new("machinery", e.to_string())))?;
			}
		}
		let mut n = 0u64;
		let mut ex2 = Exec::detached(&img, &c, Arc::new(vec![vec![]]));
		ex2.open(false).map_err(|f| ("opening the crash image (replay of the flushed logs)".to_string(), f))?;
		for (k, l, kind) in all.iter() {
			check_one(&ex2, k, Some((*l, *kind))).map_err(|f| (format!("after replay of its flushed log record: length {} kind {}", l, kind), f))?;
			n += 1;
		}
		ex2.close().map_err(|f| ("close".to_string(), f))?;
		ex.close().map_err(|f| ("close".to_string(), f))?;
		Ok(n)
	});
	let _ = std::fs::remove_dir_all(&img);
	match r {
		Ok(n) => json!({"n": n}),
		Err((what, f)) => fail_json(cfg, &what, &f),
	}
}

fn check_one(ex: &Exec, key: &[u8], exp: Option<(u32, u8)>) -> Result<(), Fail> {
	let db = ex.db();
	let r = std::panic::catch_unwind(std::panic::AssertUnwindSafe(|| (db.get(0, key), db.get_size(0, key))));
	let (g, s) = r.map_err(|e| Fail::new("panic", format!("read panicked: {}", panic_msg(e))))?;
	let g = g.map_err(|e| Fail::new("error", format!("get failed: {}", e)))?;
	let s = s.map_err(|e| Fail::new("error", format!("get_size failed: {}", e)))?;
	let expv = exp.map(|(l, kind)| gen_bytes(l as usize, l ^ 0x5eed, kind));
	if g != expv {
		let pos = match (&g, &expv) {
			(Some(a), Some(b)) => a.iter().zip(b.iter()).position(|(x, y)| x != y).map(|p| format!(", first difference at byte {}", p)).unwrap_or_default(),
			_ => String::new(),
		};
		return Err(Fail::new("mismatch", format!("get: expected {}, got {}{}", show_val(expv.as_ref()), show_val(g.as_ref()), pos)))
	}
	if s != exp.map(|(l, _)| l) {
		return Err(Fail::new("mismatch", format!("get_size: expected {:?}, got {:?}", exp.map(|x| x.0), s)))
	}
	Ok(())
}

/// representative size classes: (length, content kind)
fn classes(col: &ColSpec) -> Vec<(u32, u8)> {
	let h: u32 = if col.btree { 2 } else { 28 } + if col.ref_counted { 4 } else { 0 };
	let last_fixed = 32760 - h;
	vec![
		(0, 0), (1, 0), (32 - h.min(31), 0), (33u32.saturating_sub(h).max(5), 0), (100, 0), (1000, 0), (last_fixed, 0), (last_fixed + 1, 0),
		(8192, 0), (12300, 0), (40000, 0), (5000, 1), (40000, 1), (70000, 0),
	]
}

type Stats = BTreeMap<u8, u64>;

/// live slots per size tier = fill mark - 1 - length of the free list (walked in the table file; the
/// pipeline is drained, so the file is authoritative). A free list that does not terminate is reported
/// as u64::MAX.
fn filled(ex: &Exec) -> Stats {
	use std::os::unix::fs::FileExt;
	let mut out = Stats::new();
	for (t, filled, _written, last_removed, entry_size) in ex.db().verif_table_stats(0) {
		let path = ex.dir.join(format!("table_00_{:02x}", t));
		let mut free = 0u64;
		if let Ok(f) = std::fs::File::open(&path) {
			let mut next = last_removed;
			while next != 0 {
				free += 1;
				if free > filled {
					free = u64::MAX / 2;
					break
				}
				let mut buf = [0u8; 10];
				if f.read_exact_at(&mut buf, next * entry_size as u64).is_err() || buf[0..2] != [0xff, 0xff] {
					free = u64::MAX / 2;
					break
				}
				next = u64::from_le_bytes(buf[2..10].try_into().unwrap());
			}
		}
		out.insert(t, (filled - 1).wrapping_sub(free));
	}
	out
}

/// Overwrite sequence on one key: a -> b (-> c) -> removed -> a again. Returns the final fill marks.
fn overwrite_seq(cfg: &Cfg, seq: &[(u32, u8)], single: &BTreeMap<(u32, u8), Stats>) -> Result<(), (String, Fail)> {
	let c = Config::new(vec![cfg.col.clone()]);
	let dir = worker_dir();
	// preimage columns cannot replace a value under the same key: use the removal path between the steps
	let replace_in_place = !cfg.col.preimage;
	let mut ex = Exec::new(&dir, &c, Arc::new(vec![vec![]])).map_err(|f| ("open".to_string(), f))?;
	let key = B::pat(9, 4242);
	let kb = key.bytes();
	let step = |ex: &mut Exec, what: String, tx: Tx, exp: Option<(u32, u8)>| -> Result<(), (String, Fail)> {
		ex.commit(&tx).map_err(|f| (format!("{}: commit", what), f))?;
		ex.drain().map_err(|f| (format!("{}: drain", what), f))?;
		check_one(ex, &kb, exp).map_err(|f| (what, f))
	};
	let vof = |x: &(u32, u8)| B::Pat { len: x.0, seed: x.0 ^ 0x5eed, kind: x.1 };
	for (i, x) in seq.iter().enumerate() {
		if i > 0 && !replace_in_place {
			step(&mut ex, format!("remove before step {}", i), vec![(0, Op::Del(key.clone()))], None)?;
		}
		step(&mut ex, format!("step {} := {:?}", i, x), vec![(0, Op::Set(key.clone(), vof(x)))], Some(*x))?;
	}
	step(&mut ex, "remove".into(), vec![(0, Op::Del(key.clone()))], None)?;
	ex.apply(&Ev::Reopen).map_err(|f| ("reopen after remove".to_string(), f))?;
	check_one(&ex, &kb, None).map_err(|f| ("after reopen".to_string(), f))?;
	step(&mut ex, format!("re-insert {:?}", seq[0]), vec![(0, Op::Set(key.clone(), vof(&seq[0])))], Some(seq[0]))?;
	// storage release: the live slots (fill mark - free list) of every table must equal those of a database
	// that only ever stored the first value
	let fin = filled(&ex);
	let reference = &single[&seq[0]];
	let tiers: BTreeSet<u8> = fin.keys().chain(reference.keys()).cloned().collect();
	for t in tiers {
		let f = fin.get(&t).cloned().unwrap_or(0);
		let r = reference.get(&t).cloned().unwrap_or(0);
		if f != r {
			return Err((
				"storage release".to_string(),
				Fail::new("leak", format!(
					"after {:?} -> removed -> {:?} again, table tier {} holds {} live slots (fill mark minus free list) but a database that only stored {:?} holds {}",
					seq, seq[0], t, f as i64, seq[0], r as i64)),
			))
		}
	}
	ex.close().map_err(|f| ("close".to_string(), f))?;
	Ok(())
}

fn single_stats(cfg: &Cfg, x: (u32, u8)) -> Result<Stats, (String, Fail)> {
	let c = Config::new(vec![cfg.col.clone()]);
	let dir = worker_dir();
	let mut ex = Exec::new(&dir, &c, Arc::new(vec![vec![]])).map_err(|f| ("open".to_string(), f))?;
	let key = B::pat(9, 4242);
	ex.commit(&vec![(0, Op::Set(key.clone(), B::Pat { len: x.0, seed: x.0 ^ 0x5eed, kind: x.1 }))]).map_err(|f| ("commit".to_string(), f))?;
	ex.drain().map_err(|f| ("drain".to_string(), f))?;
	let s = filled(&ex);
	ex.close().map_err(|f| ("close".to_string(), f))?;
	Ok(s)
}

pub fn run(tier: &str) -> ! {
	let mut run = Run::new("C06", tier, "exploration");
	let thorough = tier == "thorough";
	let configs = cfgs(tier);
	// ---- length sweep
	let mut lens: Vec<u32> = if thorough { (0..=70_000).collect() } else { boundary_lengths().into_iter().collect() };
	if !thorough {
		lens.extend((0..70_000u32).step_by(97));
		lens.sort();
		lens.dedup();
	}
	let big: Vec<u32> = vec![(1 << 20) - 1, 1 << 20, (1 << 20) + 1, 3 << 20];
	let per = if thorough { 400 } else { 250 };
	let mut jobs: Vec<(usize, Vec<u32>, bool)> = vec![];
	for (ci, _) in configs.iter().enumerate() {
		for ch in lens.chunks(per) {
			jobs.push((ci, ch.to_vec(), false));
			jobs.push((ci, ch.to_vec(), true));
		}
		jobs.push((ci, big.clone(), false));
		jobs.push((ci, big.clone(), true));
	}
	let items = par_map(jobs.len(), nthreads(), "c06", |i| {
		let (ci, l, replay) = &jobs[i];
		let j = if *replay { replay_chunk(&configs[*ci], l) } else { sweep_chunk(&configs[*ci], l) };
		let stop = j.get("bad").is_some();
		(serde_json::to_vec(&j).unwrap(), stop)
	});
	let mut reads = 0u64;
	let mut values = 0u64;
	for (i, it) in items.into_iter().enumerate() {
		match it {
			Item::Done(b) => {
				let j: serde_json::Value = serde_json::from_slice(&b).unwrap();
				if let Some(bad) = j["bad"].as_str() {
					run.violation(json!({"property": "C06", "engine": "sweep", "config": configs[jobs[i].0].name, "lengths": jobs[i].1, "message": bad}), bad);
				} else {
					reads += j["n"].as_u64().unwrap();
					values += jobs[i].1.len() as u64 * 2;
				}
			},
			Item::Crashed(why) => {
				let m = format!("config {}: process died while storing lengths {:?}..: {}", configs[jobs[i].0].name, &jobs[i].1[..jobs[i].1.len().min(4)], why);
				run.violation(json!({"property": "C06", "engine": "sweep", "message": m}), &m)
			},
			Item::NotRun => (),
		}
	}
	// ---- overwrite sequences
	let mut seqs: Vec<(usize, Vec<(u32, u8)>)> = vec![];
	for (ci, cfg) in configs.iter().enumerate() {
		let cl = classes(&cfg.col);
		for a in cl.iter() {
			for b in cl.iter() {
				if thorough {
					for c in cl.iter().step_by(2) {
						seqs.push((ci, vec![*a, *b, *c]));
					}
				} else {
					seqs.push((ci, vec![*a, *b]));
				}
			}
		}
	}
	// reference fill marks of single values (differential: no hand-written slot arithmetic)
	let mut single: Vec<BTreeMap<(u32, u8), Stats>> = vec![];
	for cfg in configs.iter() {
		let mut m = BTreeMap::new();
		for x in classes(&cfg.col) {
			match crate::interpose::fresh_thread(|| single_stats(cfg, x)) {
				Ok(s) => {
					m.insert(x, s);
				},
				Err((what, f)) => {
					let msg = format!("config {}: single value {:?}: {}: {}: {}", cfg.name, x, what, f.kind, f.msg);
					run.violation(json!({"property": "C06", "engine": "sweep", "message": msg}), &msg);
					m.insert(x, Stats::new());
				},
			}
		}
		single.push(m);
	}
	let items = par_map(seqs.len(), nthreads(), "c06o", |i| {
		let (ci, seq) = &seqs[i];
		let r = crate::interpose::fresh_thread(|| overwrite_seq(&configs[*ci], seq, &single[*ci]));
		match r {
			Ok(()) => (b"{}".to_vec(), false),
			Err((what, f)) => (serde_json::to_vec(&fail_json(&configs[*ci], &format!("overwrite sequence {:?}: {}", seq, what), &f)).unwrap(), true),
		}
	});
	let mut nseq = 0u64;
	for (i, it) in items.into_iter().enumerate() {
		match it {
			Item::Done(b) => {
				let j: serde_json::Value = serde_json::from_slice(&b).unwrap();
				if let Some(bad) = j["bad"].as_str() {
					run.violation(json!({"property": "C06", "engine": "sweep", "config": configs[seqs[i].0].name, "sequence": format!("{:?}", seqs[i].1), "message": bad}), bad);
				} else {
					nseq += 1;
				}
			},
			Item::Crashed(why) => {
				let m = format!("config {}: process died during overwrite sequence {:?}: {}", configs[seqs[i].0].name, seqs[i].1, why);
				run.violation(json!({"property": "C06", "engine": "sweep", "message": m}), &m)
			},
			Item::NotRun => (),
		}
	}
	cleanup_scratch();
	run.set("evaluations", json!(reads + nseq));
	run.set("distinct_nontrivial", json!(values + nseq));
	run.set("values_stored", json!(values));
	run.set("read_backs", json!(reads));
	run.set("overwrite_sequences", json!(nseq));
	run.set("configs", json!(configs.iter().map(|c| c.name.clone()).collect::<Vec<_>>()));
	run.set("rule", json!(format!("length sweep: {} lengths ({}) x 2 content classes (incompressible LCG / compressible) x {} configurations; each value is committed, driven to the tables, read (get, get_size), and read again after a reopen; and, in a second database, committed, logged and flushed only, the directory copied as a crash leaves it, the copy opened (replay) and the value read; plus lengths 2^20-1, 2^20, 2^20+1, 3*2^20. Overwrite sequences: all ordered {} of 14 representative size classes on one key, then removal, reopen, re-insertion; after that no value table's fill mark may exceed what the largest single value of the sequence needs (storage released and reused). distinct = (config, length, class) values + sequences",
		lens.len(), if thorough { "every length 0..=70000" } else { "every length within +-1 of a size-class boundary or +-2 of a part boundary for any header layout, plus every 97th length" }, configs.len(), if thorough { "triples (third element every other class)" } else { "pairs" })));
	run.sample(json!({"config": "hash/none", "length": 4, "note": "largest value of the first size class with a 26-byte key and 2-byte size"}));
	run.sample(json!({"config": "hash/lz4-default", "sequence": "[40000 incompressible] -> [5000 compressible] -> removed -> [40000] again"}));
	run.assumptions = vec!["the pipeline is fully driven after each commit (stage interleavings are C01's subject)".into()];
	run.finish()
}
