//! C02 — a crash at any instant recovers to a prefix of the committed transactions.
//! (also serves C03's crash clause: every image is judged with lo = synced commits)

use crate::core::*;
use crate::crashmc::CrashCfg;
use crate::props::c10::rk;
use crate::report::*;
use crate::search::*;
use serde_json::json;

fn k(i: u32) -> B {
	B::pat(6, 2100 + i)
}
fn v(i: u32) -> B {
	match i % 4 {
		0 => B::pat(5, 2200 + i),
		1 => B::pat(60, 2200 + i),
		2 => B::zpat(5000, 2200 + i),
		_ => B::pat(9000, 2200 + i),
	}
}
fn fv(k: &B) -> B {
	B::pat(24, fnv(&k.bytes(), 11) as u32)
}

pub fn kv_family() -> (Config, Vec<Tx>, Tx) {
	let cfg = Config::new(vec![ColSpec::hash(), ColSpec::btree()]);
	let alpha: Vec<Tx> = vec![
		vec![(0, Op::Set(k(1), v(0))), (1, Op::Set(k(1), v(1)))],
		vec![(0, Op::Set(k(1), v(1))), (0, Op::Set(k(2), v(3))), (1, Op::Del(k(1)))],
		vec![(0, Op::Del(k(1))), (1, Op::Set(k(2), v(2)))],
		vec![(1, Op::Set(k(1), v(4))), (1, Op::Set(k(3), v(0)))],
	];
	let suffix: Tx = vec![(0, Op::Set(k(9), v(1))), (0, Op::Set(k(8), v(0))), (1, Op::Set(k(9), v(0))), (1, Op::Set(k(8), v(1)))];
	(cfg, alpha, suffix)
}

/// one hash column, two single-key transactions: cheap enough for three commits with every stage schedule
pub fn small_family() -> (Config, Vec<Tx>, Tx) {
	let cfg = Config::new(vec![ColSpec::hash()]);
	let alpha: Vec<Tx> = vec![vec![(0, Op::Set(k(1), v(0)))], vec![(0, Op::Set(k(2), v(1))), (0, Op::Del(k(1)))]];
	// one value per size class used by the alphabet: a stale free list shows when a slot is taken again
	let suffix: Tx = vec![(0, Op::Set(k(9), v(1))), (0, Op::Set(k(8), v(0)))];
	(cfg, alpha, suffix)
}

pub fn rc_tree_family() -> (Config, Vec<Tx>, Tx) {
	let cfg = Config::new(vec![ColSpec::rc(), ColSpec::tree()]);
	let t1 = NodeSpec {
		data: B::pat(9, 1),
		children: vec![ChildSpec::New(NodeSpec { data: B::pat(40, 2), children: vec![ChildSpec::New(NodeSpec::leaf(B::pat(3, 3)))] }), ChildSpec::New(NodeSpec::leaf(B::pat(5, 4)))],
	};
	let alpha: Vec<Tx> = vec![
		vec![(0, Op::Set(k(1), fv(&k(1)))), (1, Op::InsertTree(rk(1), t1))],
		vec![(0, Op::Set(k(1), fv(&k(1)))), (0, Op::Ref(k(1))), (0, Op::Set(k(2), fv(&k(2))))],
		vec![(0, Op::Del(k(1))), (1, Op::DerefTree(rk(1)))],
		vec![(1, Op::InsertTree(rk(2), NodeSpec { data: B::pat(6, 5), children: vec![ChildSpec::Existing(rk(1), vec![0])] })), (0, Op::Del(k(2)))],
	];
	let suffix: Tx = vec![(0, Op::Set(k(9), fv(&k(9))))];
	(cfg, alpha, suffix)
}

pub fn scenario(name: &str, fam: (Config, Vec<Tx>, Tx), n: usize, x: usize, crash: CrashCfg, tree: bool) -> Scenario {
	let (cfg, alpha, suffix) = fam;
	let mut all = alpha.clone();
	all.push(suffix.clone());
	let mut s = Scenario::new(name, cfg.clone(), alpha);
	s.universe = universe_of(&cfg, &all, &[]);
	s.max_commits = n;
	s.max_rejects = 0;
	s.max_reopen = x;
	s.check_iter_rc = false;
	let mut c = crash;
	c.suffix = Some(suffix);
	s.crash = Some(c);
	if tree {
		s.filter = Some(crate::props::c10::tree_filter(false, false));
	}
	s
}

pub fn scenarios(tier: &str) -> Vec<Scenario> {
	let q = CrashCfg { torn: 1, recovery_depth: 2, ..Default::default() };
	let _ = &q;
	let t = CrashCfg { torn: 2, recovery_depth: 3, ..Default::default() };
	let creation = CrashCfg { torn: 2, recovery_depth: 2, creation: true, ..Default::default() };
	if tier == "thorough" {
		vec![
			scenario("creation/hash+btree", kv_family(), 0, 0, creation.clone(), false),
			scenario("creation/rc+tree", rc_tree_family(), 0, 0, creation, true),
			scenario("hash+btree/n3", kv_family(), 3, 1, q.clone(), false),
			scenario("hash+btree/n2-torn-all", kv_family(), 2, 1, t.clone(), false),
			scenario("rc+tree/n3", rc_tree_family(), 3, 1, q, true),
			scenario("rc+tree/n2-torn-all", rc_tree_family(), 2, 1, t, true),
		]
	} else {
		vec![
			scenario("creation/hash+btree", kv_family(), 0, 0, creation, false),
			scenario("hash+btree/n2", kv_family(), 2, 1, CrashCfg { torn: 1, recovery_depth: 1, ..Default::default() }, false),
			scenario("hash+btree/n1-recovery-crashes", kv_family(), 1, 1, CrashCfg { torn: 1, recovery_depth: 2, ..Default::default() }, false),
			scenario("hash/n3-small", small_family(), 3, 0, CrashCfg { torn: 0, recovery_depth: 1, ..Default::default() }, false),
			scenario("rc+tree/n2", rc_tree_family(), 2, 0, CrashCfg { torn: 1, recovery_depth: 1, ..Default::default() }, true),
		]
	}
}

pub fn crash_summary(run: &mut Run, st: &Stats) {
	run.add_count("crash_points", st.crash.crash_points);
	run.add_count("crash_images", st.crash.images);
	run.add_count("distinct_crash_images_recovered", st.crash.distinct_images);
	run.add_count("recoveries", st.crash.recoveries);
	run.add_count("crashes_during_recovery", st.crash.nested_recoveries);
	run.add_count("power_loss_images", st.crash.power_loss_images);
}

pub fn run(tier: &str) -> ! {
	let mut run = Run::new("C02", tier, "fault_enumeration");
	let budget = Budget::new(if tier == "thorough" { 1500.0 } else { 150.0 });
	run.set("rule", json!("for every edge (state, event) of the graph search over histories x stage schedules x reopen, every file mutation of the event (log append, log sync, table/index/ref-count store, table flush, log truncate/delete, file creation and drop; recorded by libc interposition plus the mmap-store hook and mirrored in a shadow file system that is compared with the real files on every execution) is a crash point: the image 'files before that operation' (plus torn variants of the operation: byte prefixes of a write, 8-byte prefixes of a mapped store) is materialised, recovered with open, read back and compared with the states S_0..S_n after each prefix of the committed transactions; then one more transaction is committed, driven, and survives a clean reopen. Recovery is itself recorded and crashed at each of its operations (depth 2; 3 in thorough). distinct = images with distinct content"));
	run.assumptions = vec![
		"process-crash model: every completed write(2) and mapped store survives (power loss is C12)".into(),
		"a crash image is recovered with open_or_create, as a client restarting would".into(),
		"histories without a concurrently locked tree reader (as the property's quantifier says)".into(),
	];
	let scns = scenarios(tier);
	super::run_scenarios(&mut run, &scns, &budget);
	run.set("evaluations", json!(run.coverage.get("crash_images").and_then(|v| v.as_u64()).unwrap_or(0)));
	run.set("distinct_nontrivial", json!(run.coverage.get("distinct_crash_images_recovered").and_then(|v| v.as_u64()).unwrap_or(0)));
	run.finish()
}
