//! Reference models. Deliberately boring: ordered maps, applied op by op in the order given.

use crate::core::*;
use std::collections::BTreeMap;

pub const RC_LOCKED: u64 = u32::MAX as u64;

#[derive(Clone, Debug, PartialEq, Eq, Hash)]
pub struct TreeNodeM {
	pub data: Vec<u8>,
	/// children as model node ids
	pub children: Vec<u64>,
	/// number of referencing parents (tree roots + nodes)
	pub refs: u64,
}

#[derive(Clone, Debug, Default, PartialEq, Eq, Hash)]
pub struct TreeModel {
	/// root key -> (root data, children ids, count)
	pub roots: BTreeMap<Vec<u8>, (Vec<u8>, Vec<u64>, u64)>,
	pub nodes: BTreeMap<u64, TreeNodeM>,
	pub next_id: u64,
}

#[derive(Clone, Debug, PartialEq, Eq, Hash)]
pub enum ColModel {
	Kv(BTreeMap<Vec<u8>, Vec<u8>>),
	Rc(BTreeMap<Vec<u8>, (Vec<u8>, u64)>),
	Tree(TreeModel),
}

#[derive(Clone, Debug, PartialEq, Eq, Hash)]
pub struct Model {
	pub specs: Vec<ColSpec>,
	pub cols: Vec<ColModel>,
	/// trees whose reader lock is held: their removal is postponed until the lock is released (C11)
	pub locked: std::collections::BTreeSet<(u8, Vec<u8>)>,
	pub postponed: Vec<(u8, Vec<u8>)>,
}

impl TreeModel {
	fn insert_node(&mut self, n: &NodeSpec) -> Result<u64, String> {
		if n.children.len() > 255 {
			return Err("node with more than 255 children cannot be represented".into())
		}
		let mut children = Vec::new();
		for c in &n.children {
			children.push(self.child_id(c)?);
		}
		let id = self.next_id;
		self.next_id += 1;
		self.nodes.insert(id, TreeNodeM { data: n.data.bytes(), children, refs: 1 });
		Ok(id)
	}

	fn child_id(&mut self, c: &ChildSpec) -> Result<u64, String> {
		match c {
			ChildSpec::New(n) => self.insert_node(n),
			ChildSpec::Existing(root, path) => {
				let id = self.resolve(&root.bytes(), path).ok_or_else(|| {
					format!("model: existing node {:?}/{:?} not live (bad alphabet)", root.short(), path)
				})?;
				self.nodes.get_mut(&id).unwrap().refs += 1;
				Ok(id)
			},
		}
	}

	/// Resolve (root key, path) to a model node id. Path must be non-empty (roots are not nodes).
	pub fn resolve(&self, root: &[u8], path: &[u32]) -> Option<u64> {
		let (_, children, _) = self.roots.get(root)?;
		let mut id = *children.get(*path.first()? as usize)?;
		for p in &path[1..] {
			id = *self.nodes.get(&id)?.children.get(*p as usize)?;
		}
		Some(id)
	}

	fn deref_node(&mut self, id: u64) {
		let n = self.nodes.get_mut(&id).expect("model node");
		n.refs -= 1;
		if n.refs == 0 {
			let n = self.nodes.remove(&id).unwrap();
			for c in n.children {
				self.deref_node(c);
			}
		}
	}

	/// lower the root's count; at zero remove it and everything no longer reachable
	pub fn remove_root(&mut self, k: &[u8]) {
		if let Some(r) = self.roots.get_mut(k) {
			r.2 -= 1;
			if r.2 == 0 {
				let (_, children, _) = self.roots.remove(k).unwrap();
				for c in children {
					self.deref_node(c);
				}
			}
		}
	}

	pub fn total_entries(&self) -> u64 {
		(self.roots.len() + self.nodes.len()) as u64
	}
}

impl Model {
	pub fn new(cfg: &Config) -> Model {
		Model {
			specs: cfg.cols.clone(),
			cols: cfg
				.cols
				.iter()
				.map(|c| match c.kind() {
					Kind::Kv => ColModel::Kv(BTreeMap::new()),
					Kind::Rc => ColModel::Rc(BTreeMap::new()),
					Kind::Tree => ColModel::Tree(TreeModel { next_id: 1, ..Default::default() }),
				})
				.collect(),
			locked: Default::default(),
			postponed: vec![],
		}
	}

	pub fn lock(&mut self, c: u8, k: &[u8]) {
		self.locked.insert((c, k.to_vec()));
	}

	/// Release the lock: postponed removals of that tree complete.
	pub fn unlock(&mut self, c: u8, k: &[u8]) {
		self.locked.remove(&(c, k.to_vec()));
		let (now, later): (Vec<_>, Vec<_>) = std::mem::take(&mut self.postponed).into_iter().partition(|(pc, pk)| *pc == c && pk == k);
		self.postponed = later;
		for (pc, pk) in now {
			if let ColModel::Tree(t) = &mut self.cols[pc as usize] {
				t.remove_root(&pk);
			}
		}
	}

	pub fn unlock_all(&mut self) {
		let l: Vec<_> = self.locked.iter().cloned().collect();
		for (c, k) in l {
			self.unlock(c, &k);
		}
	}

	/// Is `op` admissible on column `c` (by the column's configuration alone)?
	fn static_check(&self, c: u8, op: &Op) -> Result<(), String> {
		let spec = self.specs.get(c as usize).ok_or_else(|| "no such column".to_string())?;
		match (spec.is_tree(), op) {
			(true, Op::Set(..) | Op::Del(..) | Op::Ref(..)) =>
				Err("key-value operation on a multitree column".into()),
			(true, Op::DerefTree(..)) if spec.append_only =>
				Err("dereference of a tree in an append-only column".into()),
			(true, Op::RefTree(..)) if !spec.append_only && !spec.ref_counted =>
				Err("reference of a tree in a column without reference counting".into()),
			(true, _) => Ok(()),
			(false, Op::InsertTree(..) | Op::RefTree(..) | Op::DerefTree(..)) =>
				Err("tree operation on a non-multitree column".into()),
			(false, Op::Ref(..)) if !spec.ref_counted =>
				Err("reference on a column without reference counting".into()),
			(false, _) => Ok(()),
		}
	}

	/// Does the transaction dereference a tree root that, in commit order, no longer exists?
	/// The implementation judges existence by what is currently readable (removal takes effect when the
	/// dereferencing commit is logged), so it may accept such a dereference as a no-op or reject it;
	/// the properties allow both.
	pub fn derefs_missing_root(&self, tx: &Tx) -> bool {
		tx.iter().any(|(c, op)| match (op, self.cols.get(*c as usize)) {
			(Op::DerefTree(k), Some(ColModel::Tree(t))) => !t.roots.contains_key(&k.bytes()),
			_ => false,
		})
	}

	/// Apply a transaction. `Err` means the model expects the commit call to be rejected,
	/// and then the model is unchanged.
	pub fn apply(&mut self, tx: &Tx) -> Result<(), String> {
		let mut next = self.clone();
		for (c, op) in tx {
			self.static_check(*c, op)?;
		}
		for (c, op) in tx {
			let spec = &self.specs[*c as usize];
			match &mut next.cols[*c as usize] {
				ColModel::Kv(m) => match op {
					Op::Set(k, v) => {
						let k = k.bytes();
						if spec.preimage && m.contains_key(&k) {
							// preimage contract: value is a function of the key, replacing is a no-op
						} else {
							m.insert(k, v.bytes());
						}
					},
					Op::Del(k) => {
						m.remove(&k.bytes());
					},
					_ => unreachable!(),
				},
				ColModel::Rc(m) => match op {
					Op::Set(k, v) => {
						let e = m.entry(k.bytes()).or_insert_with(|| (v.bytes(), 0));
						if e.1 < RC_LOCKED {
							e.1 += 1;
						}
					},
					Op::Ref(k) =>
						if let Some(e) = m.get_mut(&k.bytes()) {
							if e.1 < RC_LOCKED {
								e.1 += 1;
							}
						},
					Op::Del(k) => {
						let k = k.bytes();
						if let Some(e) = m.get_mut(&k) {
							if e.1 < RC_LOCKED {
								e.1 -= 1;
								if e.1 == 0 {
									m.remove(&k);
								}
							}
						}
					},
					_ => unreachable!(),
				},
				ColModel::Tree(t) => match op {
					Op::InsertTree(k, n) => {
						let k = k.bytes();
						if n.children.len() > 255 {
							return Err("root with more than 255 children cannot be represented".into())
						}
						if spec.ref_counted {
							if let Some(r) = t.roots.get_mut(&k) {
								// a set on an existing counted root raises its count; nodes of the
								// new insertion would leak: alphabets avoid re-inserting live roots
								r.2 += 1;
								continue
							}
						}
						let mut children = Vec::new();
						for c in &n.children {
							children.push(t.child_id(c)?);
						}
						t.roots.insert(k, (n.data.bytes(), children, 1));
					},
					Op::RefTree(k) =>
						if !spec.append_only && spec.ref_counted {
							if let Some(r) = t.roots.get_mut(&k.bytes()) {
								r.2 += 1;
							}
						},
					Op::DerefTree(k) => {
						let k = k.bytes();
						if next.locked.contains(&(*c, k.clone())) && t.roots.get(&k).map_or(false, |r| r.2 == 1) {
							// the tree's reader lock is held: the removal waits for its release
							next.postponed.push((*c, k));
						} else {
							t.remove_root(&k);
						}
					},
					_ => unreachable!(),
				},
			}
		}
		*self = next;
		Ok(())
	}

	pub fn hash(&self) -> u64 {
		use std::hash::{Hash, Hasher};
		let mut h = std::collections::hash_map::DefaultHasher::new();
		self.cols.hash(&mut h);
		self.locked.hash(&mut h);
		self.postponed.hash(&mut h);
		h.finish()
	}
}
