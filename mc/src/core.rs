//! Core vocabulary shared by all engines: byte patterns, operations, transactions, events,
//! database configurations, and their JSON form (replay files, evidence samples).

use parity_db::{ColumnOptions, CompressionType, Options};
use serde_json::{json, Value as J};
use std::path::Path;

/// A byte string, either literal or generated from (len, seed, kind).
#[derive(Clone, Debug, PartialEq, Eq, Hash, PartialOrd, Ord)]
pub enum B {
	Hex(Vec<u8>),
	/// kind 0: incompressible LCG stream; kind 1: compressible (one repeated byte + seed prefix)
	Pat { len: u32, seed: u32, kind: u8 },
}

impl B {
	pub fn lit(b: &[u8]) -> B {
		B::Hex(b.to_vec())
	}
	pub fn pat(len: u32, seed: u32) -> B {
		B::Pat { len, seed, kind: 0 }
	}
	pub fn zpat(len: u32, seed: u32) -> B {
		B::Pat { len, seed, kind: 1 }
	}
	pub fn bytes(&self) -> Vec<u8> {
		match self {
			B::Hex(v) => v.clone(),
			B::Pat { len, seed, kind } => gen_bytes(*len as usize, *seed, *kind),
		}
	}
	pub fn to_json(&self) -> J {
		match self {
			B::Hex(v) => J::String(format!("hex:{}", hex(v))),
			B::Pat { len, seed, kind } => J::String(format!("pat:{}:{}:{}", len, seed, kind)),
		}
	}
	pub fn from_json(j: &J) -> B {
		let s = j.as_str().expect("bytes spec must be a string");
		if let Some(h) = s.strip_prefix("hex:") {
			B::Hex(unhex(h))
		} else if let Some(p) = s.strip_prefix("pat:") {
			let v: Vec<u32> = p.split(':').map(|x| x.parse().unwrap()).collect();
			B::Pat { len: v[0], seed: v[1], kind: v[2] as u8 }
		} else {
			panic!("bad bytes spec {}", s)
		}
	}
	pub fn short(&self) -> String {
		match self {
			B::Hex(v) if v.len() <= 12 => format!("x{}", hex(v)),
			B::Hex(v) => format!("x{}..({}B)", hex(&v[..6]), v.len()),
			B::Pat { len, seed, kind } => format!("p{}/{}{}", len, seed, if *kind == 1 { "z" } else { "" }),
		}
	}
}

pub fn gen_bytes(len: usize, seed: u32, kind: u8) -> Vec<u8> {
	let mut v = Vec::with_capacity(len);
	if kind == 1 {
		// compressible: 4 seed bytes then a constant
		let s = seed.to_le_bytes();
		for i in 0..len {
			v.push(if i < 4 { s[i] } else { (seed as u8) ^ 0x5a });
		}
	} else {
		let mut x: u64 = (seed as u64).wrapping_mul(0x9E3779B97F4A7C15) ^ 0xD1B54A32D192ED03;
		for _ in 0..len {
			x = x.wrapping_mul(6364136223846793005).wrapping_add(1442695040888963407);
			v.push((x >> 33) as u8);
		}
	}
	v
}

pub fn hex(b: &[u8]) -> String {
	let mut s = String::with_capacity(b.len() * 2);
	for x in b {
		s.push_str(&format!("{:02x}", x));
	}
	s
}

pub fn unhex(s: &str) -> Vec<u8> {
	(0..s.len() / 2).map(|i| u8::from_str_radix(&s[2 * i..2 * i + 2], 16).unwrap()).collect()
}

/// Specification of a new tree node (multitree columns).
#[derive(Clone, Debug, PartialEq, Eq, Hash, PartialOrd, Ord)]
pub struct NodeSpec {
	pub data: B,
	pub children: Vec<ChildSpec>,
}

#[derive(Clone, Debug, PartialEq, Eq, Hash, PartialOrd, Ord)]
pub enum ChildSpec {
	New(NodeSpec),
	/// An existing node, named by (root key, path of child indices from that root);
	/// resolved to an address by walking the live tree in the implementation at commit time.
	Existing(B, Vec<u32>),
}

impl NodeSpec {
	pub fn leaf(data: B) -> NodeSpec {
		NodeSpec { data, children: vec![] }
	}
	pub fn to_json(&self) -> J {
		json!({"data": self.data.to_json(), "children": self.children.iter().map(|c| match c {
			ChildSpec::New(n) => n.to_json(),
			ChildSpec::Existing(k, p) => json!({"existing": k.to_json(), "path": p}),
		}).collect::<Vec<_>>()})
	}
	pub fn from_json(j: &J) -> NodeSpec {
		NodeSpec {
			data: B::from_json(&j["data"]),
			children: j["children"]
				.as_array()
				.unwrap()
				.iter()
				.map(|c| {
					if c.get("existing").is_some() {
						ChildSpec::Existing(
							B::from_json(&c["existing"]),
							c["path"].as_array().unwrap().iter().map(|x| x.as_u64().unwrap() as u32).collect(),
						)
					} else {
						ChildSpec::New(NodeSpec::from_json(c))
					}
				})
				.collect(),
		}
	}
	pub fn count_nodes(&self) -> usize {
		1 + self
			.children
			.iter()
			.map(|c| match c {
				ChildSpec::New(n) => n.count_nodes(),
				_ => 0,
			})
			.sum::<usize>()
	}
}

#[derive(Clone, Debug, PartialEq, Eq, Hash, PartialOrd, Ord)]
pub enum Op {
	Set(B, B),
	Del(B),
	Ref(B),
	InsertTree(B, NodeSpec),
	RefTree(B),
	DerefTree(B),
}

impl Op {
	pub fn key(&self) -> &B {
		match self {
			Op::Set(k, _) | Op::Del(k) | Op::Ref(k) | Op::InsertTree(k, _) | Op::RefTree(k) | Op::DerefTree(k) => k,
		}
	}
	pub fn to_json(&self) -> J {
		match self {
			Op::Set(k, v) => json!({"set": k.to_json(), "v": v.to_json()}),
			Op::Del(k) => json!({"del": k.to_json()}),
			Op::Ref(k) => json!({"ref": k.to_json()}),
			Op::InsertTree(k, n) => json!({"insert_tree": k.to_json(), "node": n.to_json()}),
			Op::RefTree(k) => json!({"ref_tree": k.to_json()}),
			Op::DerefTree(k) => json!({"deref_tree": k.to_json()}),
		}
	}
	pub fn from_json(j: &J) -> Op {
		if let Some(k) = j.get("set") {
			Op::Set(B::from_json(k), B::from_json(&j["v"]))
		} else if let Some(k) = j.get("del") {
			Op::Del(B::from_json(k))
		} else if let Some(k) = j.get("ref") {
			Op::Ref(B::from_json(k))
		} else if let Some(k) = j.get("insert_tree") {
			Op::InsertTree(B::from_json(k), NodeSpec::from_json(&j["node"]))
		} else if let Some(k) = j.get("ref_tree") {
			Op::RefTree(B::from_json(k))
		} else if let Some(k) = j.get("deref_tree") {
			Op::DerefTree(B::from_json(k))
		} else {
			panic!("bad op {}", j)
		}
	}
	pub fn short(&self) -> String {
		match self {
			Op::Set(k, v) => format!("{}:={}", k.short(), v.short()),
			Op::Del(k) => format!("del {}", k.short()),
			Op::Ref(k) => format!("ref {}", k.short()),
			Op::InsertTree(k, n) => format!("tree {}({} nodes)", k.short(), n.count_nodes()),
			Op::RefTree(k) => format!("reftree {}", k.short()),
			Op::DerefTree(k) => format!("dereftree {}", k.short()),
		}
	}
}

/// A transaction: operations tagged with their column, in the order given.
pub type Tx = Vec<(u8, Op)>;

pub fn tx_to_json(tx: &Tx) -> J {
	J::Array(tx.iter().map(|(c, o)| json!({"col": c, "op": o.to_json()})).collect())
}
pub fn tx_from_json(j: &J) -> Tx {
	j.as_array().unwrap().iter().map(|e| (e["col"].as_u64().unwrap() as u8, Op::from_json(&e["op"]))).collect()
}
pub fn tx_short(tx: &Tx) -> String {
	let v: Vec<String> = tx.iter().map(|(c, o)| format!("c{} {}", c, o.short())).collect();
	format!("[{}]", v.join("; "))
}

#[derive(Clone, Copy, Debug, PartialEq, Eq, Hash, PartialOrd, Ord)]
pub enum St {
	P,
	R,
	F,
	E,
	K,
}
pub const ALL_STAGES: [St; 5] = [St::P, St::R, St::F, St::E, St::K];

impl St {
	pub fn to_stage(self) -> parity_db::verif::Stage {
		use parity_db::verif::Stage;
		match self {
			St::P => Stage::ProcessCommits,
			St::R => Stage::ProcessReindex,
			St::F => Stage::FlushLogs,
			St::E => Stage::EnactOne,
			St::K => Stage::CleanLogs,
		}
	}
	pub fn name(self) -> &'static str {
		match self {
			St::P => "P",
			St::R => "R",
			St::F => "F",
			St::E => "E",
			St::K => "K",
		}
	}
	pub fn from_name(s: &str) -> St {
		match s {
			"P" => St::P,
			"R" => St::R,
			"F" => St::F,
			"E" => St::E,
			"K" => St::K,
			_ => panic!("bad stage {}", s),
		}
	}
}

/// Iterator calls (btree columns).
#[derive(Clone, Debug, PartialEq, Eq, Hash, PartialOrd, Ord)]
pub enum ItCall {
	Open(u8),
	Seek(B),
	First,
	Last,
	Next,
	Prev,
	Close,
}

/// One step of a history.
#[derive(Clone, Debug, PartialEq, Eq, Hash, PartialOrd, Ord)]
pub enum Ev {
	Commit(Tx),
	Stage(St),
	/// drop the handle, open again
	Reopen,
	It(ItCall),
	/// take / release the read lock of the tree reader of (col, root key)
	Lock(u8, B),
	Unlock(u8, B),
	/// Drive the pipeline until nothing is left to do (P* F E* K R ... to fixpoint).
	Drain,
	/// Put the database into the background-error state (what a failing worker does).
	BgErr,
}

impl Ev {
	pub fn to_json(&self) -> J {
		match self {
			Ev::Commit(tx) => json!({"commit": tx_to_json(tx)}),
			Ev::Stage(s) => json!({"stage": s.name()}),
			Ev::Reopen => json!("reopen"),
			Ev::Drain => json!("drain"),
			Ev::BgErr => json!("bg_err"),
			Ev::It(c) => match c {
				ItCall::Open(c) => json!({"it": "open", "col": c}),
				ItCall::Seek(k) => json!({"it": "seek", "key": k.to_json()}),
				ItCall::First => json!({"it": "first"}),
				ItCall::Last => json!({"it": "last"}),
				ItCall::Next => json!({"it": "next"}),
				ItCall::Prev => json!({"it": "prev"}),
				ItCall::Close => json!({"it": "close"}),
			},
			Ev::Lock(c, k) => json!({"lock": k.to_json(), "col": c}),
			Ev::Unlock(c, k) => json!({"unlock": k.to_json(), "col": c}),
		}
	}
	pub fn from_json(j: &J) -> Ev {
		if j == "reopen" {
			return Ev::Reopen
		}
		if j == "drain" {
			return Ev::Drain
		}
		if j == "bg_err" {
			return Ev::BgErr
		}
		if let Some(t) = j.get("commit") {
			return Ev::Commit(tx_from_json(t))
		}
		if let Some(s) = j.get("stage") {
			return Ev::Stage(St::from_name(s.as_str().unwrap()))
		}
		if let Some(i) = j.get("it") {
			return Ev::It(match i.as_str().unwrap() {
				"open" => ItCall::Open(j["col"].as_u64().unwrap() as u8),
				"seek" => ItCall::Seek(B::from_json(&j["key"])),
				"first" => ItCall::First,
				"last" => ItCall::Last,
				"next" => ItCall::Next,
				"prev" => ItCall::Prev,
				"close" => ItCall::Close,
				x => panic!("bad it {}", x),
			})
		}
		if let Some(k) = j.get("lock") {
			return Ev::Lock(j["col"].as_u64().unwrap() as u8, B::from_json(k))
		}
		if let Some(k) = j.get("unlock") {
			return Ev::Unlock(j["col"].as_u64().unwrap() as u8, B::from_json(k))
		}
		panic!("bad event {}", j)
	}
	pub fn short(&self) -> String {
		match self {
			Ev::Commit(tx) => format!("commit{}", tx_short(tx)),
			Ev::Stage(s) => s.name().to_string(),
			Ev::Reopen => "X".into(),
			Ev::Drain => "D".into(),
			Ev::BgErr => "BGERR".into(),
			Ev::It(c) => match c {
				ItCall::Open(c) => format!("it.open({})", c),
				ItCall::Seek(k) => format!("it.seek({})", k.short()),
				ItCall::First => "it.first".into(),
				ItCall::Last => "it.last".into(),
				ItCall::Next => "it.next".into(),
				ItCall::Prev => "it.prev".into(),
				ItCall::Close => "it.close".into(),
			},
			Ev::Lock(c, k) => format!("lock(c{},{})", c, k.short()),
			Ev::Unlock(c, k) => format!("unlock(c{},{})", c, k.short()),
		}
	}
}

pub fn hist_to_json(h: &[Ev]) -> J {
	J::Array(h.iter().map(|e| e.to_json()).collect())
}
pub fn hist_from_json(j: &J) -> Vec<Ev> {
	j.as_array().unwrap().iter().map(Ev::from_json).collect()
}
pub fn hist_short(h: &[Ev]) -> String {
	h.iter().map(|e| e.short()).collect::<Vec<_>>().join(" ")
}

/// Column kind as the reference model sees it.
#[derive(Clone, Copy, Debug, PartialEq, Eq, Hash)]
pub enum Kind {
	/// plain key-value map (hash or btree index)
	Kv,
	/// key -> (value, count)
	Rc,
	/// multitree
	Tree,
}

#[derive(Clone, Debug, PartialEq, Eq, Hash)]
pub struct ColSpec {
	pub preimage: bool,
	pub uniform: bool,
	pub ref_counted: bool,
	pub compression: u8, // 0 none, 1 lz4, 2 snappy
	pub btree: bool,
	pub multitree: bool,
	pub append_only: bool,
	pub direct_access: bool,
	pub compression_threshold: Option<u32>,
}

impl Default for ColSpec {
	fn default() -> Self {
		ColSpec {
			preimage: false,
			uniform: false,
			ref_counted: false,
			compression: 0,
			btree: false,
			multitree: false,
			append_only: false,
			direct_access: false,
			compression_threshold: None,
		}
	}
}

impl ColSpec {
	/// a column with both `btree_index` and `multitree` set is opened as a btree column by the crate
	pub fn is_tree(&self) -> bool {
		self.multitree && !self.btree
	}
	pub fn kind(&self) -> Kind {
		if self.is_tree() {
			Kind::Tree
		} else if self.ref_counted {
			Kind::Rc
		} else {
			Kind::Kv
		}
	}
	pub fn hash() -> ColSpec {
		ColSpec::default()
	}
	pub fn btree() -> ColSpec {
		ColSpec { btree: true, ..Default::default() }
	}
	pub fn rc() -> ColSpec {
		ColSpec { ref_counted: true, preimage: true, ..Default::default() }
	}
	pub fn tree() -> ColSpec {
		ColSpec { multitree: true, direct_access: true, ..Default::default() }
	}
	pub fn options(&self) -> ColumnOptions {
		ColumnOptions {
			preimage: self.preimage,
			uniform: self.uniform,
			ref_counted: self.ref_counted,
			compression: match self.compression {
				0 => CompressionType::NoCompression,
				1 => CompressionType::Lz4,
				_ => CompressionType::Snappy,
			},
			btree_index: self.btree,
			multitree: self.multitree,
			append_only: self.append_only,
			allow_direct_node_access: self.direct_access,
		}
	}
	pub fn to_json(&self) -> J {
		json!({"preimage": self.preimage, "uniform": self.uniform, "ref_counted": self.ref_counted,
			"compression": self.compression, "btree": self.btree, "multitree": self.multitree,
			"append_only": self.append_only, "direct_access": self.direct_access,
			"compression_threshold": self.compression_threshold})
	}
	pub fn from_json(j: &J) -> ColSpec {
		let b = |k: &str| j[k].as_bool().unwrap_or(false);
		ColSpec {
			preimage: b("preimage"),
			uniform: b("uniform"),
			ref_counted: b("ref_counted"),
			compression: j["compression"].as_u64().unwrap_or(0) as u8,
			btree: b("btree"),
			multitree: b("multitree"),
			append_only: b("append_only"),
			direct_access: b("direct_access"),
			compression_threshold: j["compression_threshold"].as_u64().map(|x| x as u32),
		}
	}
	pub fn short(&self) -> String {
		let mut s = String::new();
		s.push_str(if self.btree {
			"btree"
		} else if self.multitree {
			"multitree"
		} else {
			"hash"
		});
		if self.btree && self.multitree {
			s.push_str("+multitree-flag")
		}
		if self.uniform {
			s.push_str("+uniform")
		}
		if self.preimage {
			s.push_str("+preimage")
		}
		if self.ref_counted {
			s.push_str("+rc")
		}
		if self.append_only {
			s.push_str("+append_only")
		}
		if self.direct_access {
			s.push_str("+direct")
		}
		match self.compression {
			1 => s.push_str("+lz4"),
			2 => s.push_str("+snappy"),
			_ => (),
		}
		if let Some(t) = self.compression_threshold {
			s.push_str(&format!("+thr{}", t))
		}
		s
	}
}

#[derive(Clone, Debug, PartialEq, Eq, Hash)]
pub struct Config {
	pub cols: Vec<ColSpec>,
	/// salt byte repeated 32 times; 0 = zero salt (identity hashing for uniform columns)
	pub salt: u8,
	pub sync_wal: bool,
	pub sync_data: bool,
	/// hook H10: a reindex batch ends after the first index page that brings it to this many entries
	/// (None: the crate's own limit only)
	pub reindex_batch: Option<usize>,
}

impl Config {
	pub fn new(cols: Vec<ColSpec>) -> Config {
		Config { cols, salt: 7, sync_wal: true, sync_data: true, reindex_batch: None }
	}
	pub fn options(&self, path: &Path) -> Options {
		let mut o = Options::with_columns(path, self.cols.len() as u8);
		for (i, c) in self.cols.iter().enumerate() {
			o.columns[i] = c.options();
			if let Some(t) = c.compression_threshold {
				o.compression_threshold.insert(i as u8, t);
			}
		}
		o.salt = Some([self.salt; 32]);
		o.stats = false;
		o.sync_wal = self.sync_wal;
		o.sync_data = self.sync_data;
		o.with_background_thread = false;
		o.always_flush = true;
		// every open of this configuration goes through here: the knob always matches the configuration in use
		parity_db::verif::set_reindex_batch(self.reindex_batch.unwrap_or(usize::MAX));
		o
	}
	pub fn to_json(&self) -> J {
		json!({"cols": self.cols.iter().map(|c| c.to_json()).collect::<Vec<_>>(), "salt": self.salt,
			"sync_wal": self.sync_wal, "sync_data": self.sync_data, "reindex_batch": self.reindex_batch})
	}
	pub fn from_json(j: &J) -> Config {
		Config {
			cols: j["cols"].as_array().unwrap().iter().map(ColSpec::from_json).collect(),
			salt: j["salt"].as_u64().unwrap_or(7) as u8,
			sync_wal: j["sync_wal"].as_bool().unwrap_or(true),
			sync_data: j["sync_data"].as_bool().unwrap_or(true),
			reindex_batch: j["reindex_batch"].as_u64().map(|x| x as usize),
		}
	}
	pub fn short(&self) -> String {
		format!(
			"[{}] salt={}",
			self.cols.iter().map(|c| c.short()).collect::<Vec<_>>().join(", "),
			self.salt
		)
	}
}

pub fn fnv(data: &[u8], mut h: u64) -> u64 {
	for &b in data {
		h = (h ^ b as u64).wrapping_mul(0x100000001b3);
	}
	h
}
