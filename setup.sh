#!/bin/bash
# Build the framework from files on disk only (offline).
set -e
ROOT="$(cd "$(dirname "$0")" && pwd)"
export CARGO_NET_OFFLINE=true
mkdir -p "$ROOT/.target"
cd "$ROOT/mc" && cargo build --release --offline 2>&1 | tail -3
if [ -d "$ROOT/mc-loom" ]; then
	cd "$ROOT/mc-loom" && cargo build --release --offline 2>&1 | tail -3
fi
echo "setup done"
