#!/bin/bash
# Build the framework from files on disk only (offline).
set -e
ROOT="$(cd "$(dirname "$0")" && pwd)"
export CARGO_NET_OFFLINE=true
mkdir -p "$ROOT/.target"
cd "$ROOT/mc" && cargo build --release --offline 2>&1 | tail -3
if [ -d "$ROOT/mc-loom" ]; then
	cd "$ROOT/mc-loom" && cargo build --release --offline 2>&1 | tail -3
fi
# the same harness with the small smallest index (second part of C10, trace judge of C12)
cd "$ROOT/mc" && cargo build --release --offline --target-dir "$ROOT/.target/std-small" \
  --config 'build.rustflags=["--cfg","pdb_verif","--cfg","pdb_verif_small_index"]' 2>&1 | tail -1
echo "setup done"
