#!/usr/bin/env python3
"""Generates /verif/MANIFEST.json from the table below (kept in one place so it stays valid)."""
import json, os, subprocess
ROOT = os.path.dirname(os.path.dirname(os.path.abspath(__file__)))

# id -> (engine, category, technique, text, note, design_ref)   -- only properties whose check is built
CLAIMED = {
 "C01": ("seqmc", "model_checking",
   "explicit-state breadth-first search over the real Db (history replay), reference-model oracle after every event, pipeline model validated in lock-step",
   "Every state reachable by <= n commits from the alphabet, any interleaving of the five pipeline-stage events and <= x clean reopen events is visited once; after every event every key of the universe is read (get, get_size) and compared with a BTreeMap model. Configurations: hashed/uniform x preimage x compression, 1 and 2 columns.",
   "Bounds (n, x, alphabet) per scenario in the evidence; stepping mode without real threads; merging of states by (digest, file bytes, model, pipeline model).",
   "DESIGN.md §3 E1, §4 C01"),
 "C04": ("seqmc", "model_checking",
   "explicit-state breadth-first search over the real Db incl. iterator calls as events, position-semantics oracle on a BTreeMap model, iterator internal state part of state identity",
   "Every state reachable by <= n commits, any interleaving of pipeline-stage events, and iterator call sequences (open, seek(k) present/absent, seek_to_first, seek_to_last, next, prev) of bounded length with commits/stage events interleaved while the iterator is open; every iterator answer, every point read and a full forward and backward scan after every event are compared with the model. Structure scenarios: macro-transactions over 100 keys and single-key edits from prebuilt depth-2/3 trees with scans after every drain and reopen.",
   "Bounds per scenario in the evidence; on-disk tree shape (sorted, uniform depth) is checked through scans here and by the file parser of C14.",
   "DESIGN.md §3 E1, §4 C04"),
 "C07": ("seqmc", "model_checking",
   "explicit-state breadth-first search over the real Db, reference-count model oracle after every event, pipeline model validated in lock-step",
   "Every state reachable by <= n set/reference/dereference transactions over 2 keys (value a function of the key), any interleaving of pipeline-stage events and reopen, on a ref-counted column with hash and with btree index; oracle: count>0 => readable with its value at every state; at states with an empty commit queue and after reopen readable <=> count>0 and (hash index) value iteration = multiset of live (value,count).",
   "Bounds per scenario in the evidence. Known finding F-C07-iter-lag (iteration lags until records are enacted) is reported as KNOWN-FINDING; iteration mismatches at fully enacted states and after reopen are violations. Crash clause: C02/C12 image sets include this column kind (when built). Count saturation at u32::MAX is not driven (would need 2^32 operations or a crafted file).",
   "DESIGN.md §3 E1, §4 C07"),
 "C08": ("seqmc", "model_checking",
   "explicit-state breadth-first search over the real Db with every invalid transaction offered at every state; before/after state-digest and file-byte comparison for each rejected commit; reference model that never sees rejected transactions",
   "Families of invalid transactions (one invalid operation inserted at every position of a valid multi-column transaction: reference without counting on hash and btree columns, tree operations on non-tree columns and vice versa, dereference of a missing or append-only tree, reference of a tree without counting, unrepresentable node with 256 children, commit in the background-error state) are submitted at every state of a surrounding history (accepted commits, all stage interleavings, reopen). Oracle: the call returns an error; the in-memory digest (commit overlay contents, queue, claimed slots/free lists, queued-dereference counters, log overlays) and every file byte are identical before and after the call; all later reads in all columns agree with the model.",
   "Rejected commits may consume a commit id (not observable). Hash-map order pinned and varied over two seeds. Bounds per scenario in the evidence.",
   "DESIGN.md §3 E1, §4 C08"),
 "C10": ("seqmc", "model_checking",
   "explicit-state breadth-first search over the real Db, tree model with shared nodes and reference counts, full tree walks through the reader API after every event",
   "Histories of InsertTree / ReferenceTree / DereferenceTree over 3 root keys with distinct live roots, shapes incl. depth-3 chains, existing-address children (same node twice, under a new child), multipart node data, fan-out 255/256 (root and inner), column variants plain / no direct access / append-only / ref-counted roots, all stage interleavings (n<=2..3) and drained histories (n<=4..5), reopen. Oracle: exact read-back of every live tree via TreeReader and the direct API; unrepresentable insertions rejected; when all commits are logged dead roots unreadable and get_num_column_value_entries = roots + distinct nodes of the model.",
   "Bounds per scenario in the evidence. `./check C10` runs two parts one after the other: the standard build (evidence C10.json) and, in the build whose smallest reference-count table has 2^4 chunks (guard pdb_verif_small_index), a graph search in which three trees over 600 shared leaves make the reference-count table grow while counts are raised and lowered and migration batches, cleanup and reopen are interleaved (evidence C10-small-index.json). Slot-level reclamation (free lists) is checked through the entry count here and by the file parser of C14.",
   "DESIGN.md §3 E1, §4 C10"),
 "C11": ("seqmc", "model_checking",
   "explicit-state breadth-first search over the real Db with reader lock/unlock as history events; snapshot oracle for the locked tree, commit-order model for all columns",
   "From a state with a live tree K1: lock(K1)/unlock(K1), commits combining DereferenceTree(K1) with writes to hash and btree columns, later transactions writing the same keys, InsertTree(K2) reusing a node of K1, all stage interleavings, reopen. Oracle: the locked tree equals its snapshot at every state; every column agrees with the model applying transactions in commit-return order at every state, after drain and after reopen; after unlock the removal completes.",
   "`./check C11` runs the sequential part (lock/unlock are events; at most 3 process_commits calls per locked period; evidence C11.json) and the threaded part under loom side by side (evidence C11-loom.json; quick: one-pipeline-thread and two-readers scenarios at preemption bound 1, both complete; thorough: bound 2-3, split pipeline) (`pdbloom C11L`: reader holding the lock and inserting a sharing tree, pruner, later writer, pipeline thread(s); preemption bound 1-3; ~0.1 s per schedule because opening a multitree column scans its ref-count table under loom, so the wall cap was usually hit before the small-index build; two races of the deferral protocol found there are listed as known findings and tolerated by class).",
   "DESIGN.md §3 E1, §4 C11"),
 "C06": ("seqmc-sweep", "exploration",
   "exhaustive one-parameter sweeps over the real Db: every boundary length (quick) / every length 0..70000 (thorough) x content class x compression configuration; all ordered pairs/triples of representative size classes as overwrite sequences",
   "Every value is committed, driven to the tables, read back (get, get_size) bit-exact, and read again after reopen; lengths cover +-1 around all 255 size-class boundaries for every header layout, +-2 around 1..18-part chain boundaries, 2^20+-1 and 3 MiB; overwrite sequences old->new(->newer)->removed->reopen->old again on one key with a storage-release oracle (live slots = fill mark minus free list, walked in the table file, must equal those of a database that only stored the first value).",
   "Pipeline fully driven after each commit. Compressed sizes are not steered onto boundaries (only uncompressed lengths are). Thorough tier adds all lengths, 3 compression kinds x 3 thresholds x {hash, btree, ref-counted}.",
   "DESIGN.md §3 E1 sweep, §4 C06"),
 "C19": ("pagemc", "exploration",
   "exhaustive small-scope enumeration of the real page-search functions (fast SSE2 and scalar) through a hook",
   "All index sizes 16..=44 x key classes x all pages with <= 2 (quick) / <= 3 (thorough) occupied slots from {exact match, exact match other address, match on fast-compared bits only, non-match, zero partial key} plus full pages with one special entry at each position x all 64 start positions. Oracle: returned slot >= start, non-empty, equal to the page content, agrees with the key on all compared bits, is the first such slot, no exact match before it; 'absent' only if no exact match at or after start; the scalar search must be exact.",
   "x86_64 only (the SSE2 path exists only there). Pages with 4..63 occupied slots are covered only by the full-page family.",
   "DESIGN.md §3 E4, §4 C19"),
 "C02": ("crashmc", "fault_enumeration",
   "exhaustive crash-point enumeration over recorded I/O traces of the real Db: every file-operation boundary (and torn variants) of every edge of the bounded state graph, recovery + prefix oracle on every distinct image, nested crashes during recovery",
   "libc interposition (open/write/ftruncate/fsync/fdatasync/msync/mmap/unlink/rename) plus the mmap-store hook give the ordered list of file mutations of every event; a shadow file system mirrors them (and is compared byte-for-byte with the real files on every execution). For every edge of the graph search (hash+btree, ref-counted+multitree, creation from a non-existent directory) every operation boundary and torn prefixes of writes/stores yield an image that is materialised, opened, read back and matched against S_0..S_n; then a further transaction is committed, driven and survives a reopen; recovery itself is crashed at each of its operations (depth 2).",
   "Process-crash model (completed writes survive). Bounds per scenario in the evidence. Known finding F-C02-claimed-entries-leak is reported, not failed. Index-growth histories are crash-enumerated under C09 and C03.",
   "DESIGN.md §3 E2, §4 C02"),
 "C03": ("seqmc+crashmc", "fault_enumeration",
   "graph search with drop+reopen offered at every pipeline state (clean-shutdown clause) and crash-image enumeration with a durability lower bound derived from observed sync operations (synced-records clause); loom exploration (preemption-bounded DPOR) of the real worker loops with the handle dropped at every reachable point",
   "(a) reopen (drop, open) at every state of the graph (commits queued / logged / synced / half-applied files / several files pending): afterwards all accepted commits are present in order; (b) every crash image of every edge judged with lo = commits whose log file was fdatasync'ed before the crash point.",
   "`./check C03` runs two parts side by side: the stepping part (evidence C03.json; includes C09's growth family: drop and crash at every state of an index growth) and the threaded part under loom (evidence C03-loom.json): the crate's real worker loops (all four, or a subset, the others never running before the drop) while a client commits three order-sensitive transactions over a hash and a btree column and drops the handle wherever the workers are; after the drop the directory is opened without threads and must show all three in order. Preemption bound 1 complete, 2 to the wall cap.",
   "DESIGN.md §4 C03"),
 "C12": ("crashmc", "fault_enumeration",
   "exhaustive power-loss enumeration on recorded I/O traces (of every edge of the bounded state graph, and of every loom schedule of the real commit/cleanup workers): crash point x subset of unsynced 4 KiB pages of mapped files x length of the unsynced tail of appended files, recovery + prefix oracle with durability lower bound",
   "For every crash point of every edge of the bounded state graph (see C02) the shadow file system keeps, per file, the content as of its last sync; every page dirtied since either reaches the disk or not (all subsets up to 8-10 dirty pages, else all subsets with <= 2 stale or <= 2 fresh pages) and the unsynced log tail is cut at synced length / field boundaries / full (every length in the thorough scenario). Each distinct image is recovered: it must equal S_j with j >= commits whose log was synced (taken from the fdatasync operations observed in the trace). Both 'equivalently' clauses are decided by this: a table page dirtied before its record's log is durable, or a log truncated/reused while a page it feeds is dirty, yields a failing image.",
   "Fault model as stated by the property (pages of mapped files, prefix of appended bytes; namespace operations and truncations durable in program order). sync_wal = sync_data = true. Bounds per scenario. `./check C12` runs two parts side by side: the sequential part (evidence C12.json) and the threaded part (evidence C12-loom.json): the real commit and cleanup worker loops under loom (preemption bound 1-3) on a backlog of 2-4 flushed log files; the file operations of every schedule are recorded, every distinct operation sequence is judged like a crash trace (power-loss images at every operation boundary and before every sync). An msync makes exactly the pages of its byte range durable.",
   "DESIGN.md §3 E2 family 3, §4 C12"),
 "C13": ("crashmc-logdamage", "fault_enumeration",
   "exhaustive mutation of the log files of recorded crash images (every truncation length, bit flips, windows, tails, file deletion/swap/duplication, short files, stale generations) with recovery + bounded-prefix oracle",
   "Base images with 2-3 log files (records partly enacted; two records in one file; recycled file; stale generation; multi-column) are damaged in every listed way; each distinct image must open without panic, equal S_j with enacted <= j <= last record whose bytes and predecessors' are intact, and keep accepting commits.",
   "Quick: bit flips of bit 0 and 7 of every byte, aligned windows; thorough: every bit, every window offset, more bases. Known findings (recovery trusts the first log's record id: F-C13-oldest-pending-log-vanishes, F-C13-first-log-id-damaged, F-C13-stale-generation-reapplied) are reported, not failed. CRC collisions outside the bound.",
   "DESIGN.md §3 E2 family 4, §4 C13"),
 "C16": ("faultmc", "fault_enumeration",
   "exhaustive fault-index enumeration: for every edge of the bounded state graph and every j, persistent failure of all file operations from the j-th of that step on (libc interposition) and of all I/O sites from the j-th on (the crate's own injector)",
   "Every (state, event in {P,R,F,E,K,reopen}, injector, j) is executed from scratch: no panic; a failed syscall makes the step return an error (never Ok); the stored background error refuses later commits without trace; reads equal the committed state; drop under the fault terminates; after the fault is gone reopen shows S_k with k >= commits synced before the failure.",
   "`./check C16` runs two parts side by side: the stepping part (evidence C16.json) and the threaded part (evidence C16-loom.json: the real commit and cleanup workers under loom on a backlog of 3 flushed log files, every file operation from the j-th of the threaded phase on fails, one exploration per j; all threads must terminate, a later commit returns, reads stay correct, reopen shows all synced commits). Failures are persistent (as quantified). A power loss following an I/O failure is combined under C12. The index-growth scenario follows one pipeline order and caps the crate's own injector at its first 10 (quick) / 48 (thorough) sites per step (its sites include every in-memory read of the reindex scan); the syscall injector is never capped.",
   "DESIGN.md §3 E2 family 5, §4 C16"),
 "C09": ("seqmc+crashmc", "model_checking",
   "explicit-state breadth-first search over the real Db with adversarial key families (identity hashing) and reindex batches as events (one batch per growth, and a growth split into four batches by hook H10); crash-point enumeration over growth edges; loom exploration (preemption-bounded DPOR) of reader threads against a pipeline thread completing a migration, and of the real workers carrying a growth through",
   "From a state with one full 64-entry index page: commits that overflow it (growth 16->17 bits), remove/replace keys still in the old index, build and edit a 3-key collision chain equal in every index-visible bit, overflow the new index's page (second growth from a reindex batch), interleaved with every stage event incl. reindex batches, and reopen; every key ever written is read after every event. Crash scenarios put a crash point at every file operation of every edge of a growth (new index creation, batch records, DropTable, unlink of the old file) with the C02 oracle.",
   "Bounds per scenario (quick: one commit after the fill; thorough: up to three, growth+crash with a following commit, power loss). Since round 5 also: a key replaced while its page of the new index is full (found D21), a growth in four batches with commits / reopen between the batches. `./check C09` runs two parts side by side: the stepping part (evidence C09.json) and the threaded part (evidence C09-loom.json: growth in progress, reader thread(s) reading keys that still live in the old index while a pipeline thread completes the migration and drops the old index; loom, preemption bound 1 complete, 2 to the wall cap; small-index build). At most 6 reindex-batch events per history. 'Each live key exactly once across index files' is the file parser's subject (C14).",
   "DESIGN.md §4 C09"),
 "C17": ("admin", "exploration",
   "exhaustive finite sweeps: all 384 option combinations x 3 column positions through the metadata round trip; all layouts x administration calls x {clean, unreplayed logs}; all single-field option mismatches and column-count mismatches",
   "Round trip of every ColumnOptions value; open of a missing path; for every layout of 1..2 (thorough 1..3) columns over {hash, btree, ref-counted, multitree} with content, cleanly closed and with synced-but-unapplied logs present: mismatching opens fail and leave every file byte unchanged; add/drop/reset/clear leave other columns equal to the model, the affected column empty or reconfigured, and the database usable with the options left behind.",
   "Stored/requested pairs: all valid single-field differences and column-count differences (not all ~147k pairs).",
   "DESIGN.md §4 C17"),
 "C18": ("handles", "model_checking",
   "exhaustive enumeration of open/open_or_create/drop sequences over three handle slots against a one-live-handle model; second open injected at every file operation of a recovering open and of a drop with queued work; holder process killed at every operation of its recovery",
   "(a) all sequences of 4 (thorough 6) actions from a non-existent directory; (b) a callback from the I/O recorder attempts a second open after every file operation of a first open that replays logs and of the drop of that handle with two commits queued: always a lock error, no file byte changed; (c) a forked process holds the database stopped at operation k of its recovery (every k): the parent is refused, kills it with SIGKILL, then opens successfully and sees all committed data.",
   "Real threads racing open/drop are not scheduled by this check (the interleaving points are file operations). flock semantics of this kernel.",
   "DESIGN.md §4 C18"),
 "C20": ("migrate", "exploration",
   "exhaustive sweep over source/destination option pairs x selection mode x overwrite x content sets x unselected-column layouts through the real migrate(), judged after it returns against the translated reference model",
   "9 x 9 option pairs over {plain, preimage, ref-counted} x {none, lz4, snappy}, automatic and forced selection, overwrite on/off, content incl. several size classes, a chained 40 kB value, counts 1..3, more than one 10240-operation batch, with an unselected btree column and an unselected multitree column holding two trees that share a node. Oracle: every key, value and count in the result; no extra entries; unselected columns equal (and the shared node survives dereferencing one tree); source intact unless overwriting.",
   "Quick runs a covering third of the product; thorough all. migrate() uses real background threads: only its final outcome is judged. Uniform-key columns with a grown index are not in the content sets.",
   "DESIGN.md §4 C20"),
 "C05": ("loommc", "model_checking",
   "stateless model checking of the real code under loom (DPOR, bounded preemptions): writer, pipeline thread(s) and reader as loom threads over a real Db; version oracle inside the model closure",
   "Writer commits T1{k1,k2} (values moving to other size tiers / multipart) and T2{k1, del k2}; the stages run on one or two pipeline threads; the reader reads k1, k2, k1 with a counter of completed commits sampled around each read. Every schedule with <= 1-2 (thorough 2-3) preemptions is executed on a fresh database: each value must be one some version wrote, not older than the commits completed before the read began, not from a commit that had not started, and versions never decrease across the reads. Hash and btree columns; k1/k2 in one column and in two columns.",
   "Scheduling points: the crate's Mutex/RwLock/Condvar (loom feature) plus shadow accesses next to mapped-memory reads/stores and the shutdown flag (hook H8); the upgradable read lock admits concurrent readers as parking_lot's does (hook). SC interleavings only; real workers and index growth are not in the C05 scenarios (scripted pipeline thread instead).",
   "DESIGN.md §3 E3, §4 C05"),
 "C15": ("loommc", "model_checking",
   "stateless model checking under loom of the four real worker loops (run as loom threads through a hook) with scaled-down queue thresholds; deadlock = violation; reopen oracle",
   "Client commits (below / above the scaled commit-queue and log-queue limits, empty transaction, second and third client), shutdown at whatever point the schedule reached, join, drop, reopen without threads: every accepted commit present. Subsets of workers model arbitrarily slow workers. Liveness scenarios: after a commit the client only watches the queue; it must drain without further client activity; pipeline-liveness scenarios require every record to be enacted by the workers alone (no shutdown); backlog scenarios start the commit and cleanup workers on 3-5 flushed log files (the number of files awaiting cleanup passes its limit). loom reports any schedule in which a thread blocks forever (commit never returns, worker never exits, join hangs).",
   "Scaled thresholds (commit queue 64 B, log queue 512 B, 1 dirty log file) exercise the production code paths with smaller numbers. Quick tier: the all-worker scenarios hit the 40 s wall cap (reported, exhaustive=false); worker-subset, liveness and throttling scenarios complete. No spurious wake-ups.",
   "DESIGN.md §3 E3, §4 C15"),
 "C14": ("seqmc+parser", "model_checking",
   "explicit-state graph search over insert/overwrite/remove histories of every column kind with an independent file-format parser evaluated at every quiescent state, after reopen and after crash recovery",
   "The parser (written from the format comments, sharing no code with the crate) reads index, value-table and ref-count files: free lists acyclic / in range / tombstones only; every index entry resolves to a keyed value (inert leftovers only after growth); btree walked from its header (keys strictly ascending, leaves at the recorded depth, values read); tree nodes walked from the roots with parent counts compared to the ref-count table; every slot below a fill mark is in exactly one live chain or on the free list exactly once; counts and (uncompressed) values equal the model's. Histories: 2-3 keys x {5 B, 300 B, 9000 B chained} sets/removals, set/ref/deref on a counting column, trees sharing nodes dereferenced in every order, a btree grown to depth >= 2 and shrunk again, stage-interleaved variants, reopen, crash + recovery + clean drop.",
   "Hashed keys cannot be recomputed by the parser (the key tail stored with the value is not compared with the model's keys; counts and values are). Known finding F-C14-claimed-entries-leak after crashes. Index growth histories are not parsed.",
   "DESIGN.md §4 C14"),
}

NOT_YET = {}

def main():
    props = [json.loads(l) for l in open(os.path.join(ROOT, "properties.jsonl"))]
    checks = []
    na = []
    for p in props:
        pid = p["id"]
        if pid in CLAIMED:
            eng, cat, tech, text, note, ref = CLAIMED[pid]
            checks.append({
                "property_id": pid,
                "quick_cmd": f"./check {pid} quick",
                "thorough_cmd": f"./check {pid} thorough",
                "evidence_file": f"/verif/evidence/{pid}.json",
                "replay_cmd_template": "./check replay {path}",
                "engine": eng,
                "level_claimed": {"category": cat, "text": text, "design_ref": ref},
                "level_note": note,
                "technique": tech,
            })
        else:
            na.append({"property_id": pid, "reason": NOT_YET.get(pid, "check not built yet in this revision of /verif (planned engine in DESIGN.md §4); nothing is claimed for it")})
    hooks = subprocess.run(["git", "-C", "/repo", "log", "--format=%H %s"], capture_output=True, text=True).stdout.splitlines()
    hook_commits = [l.split()[0] for l in hooks if "verif hooks" in l]
    m = {
        "version": 1,
        "setup_cmd": "./setup.sh",
        "hooks": {
            "guard": "--cfg pdb_verif (rustc cfg; the loom build additionally sets --cfg pdb_verif_scaled and --cfg pdb_verif_small_index, the trace-judging build --cfg pdb_verif_small_index)",
            "enable": "RUSTFLAGS='--cfg pdb_verif' via /verif/mc/.cargo/config.toml (and mc-loom/.cargo/config.toml); parity-db is a path dependency on /repo with features instrumentation (and loom)",
            "baseline_off_cmd": "cd /repo && cargo test --workspace --no-fail-fast --offline",
            "source_commits": hook_commits,
            "add_only": True,
        },
        "engines": [
            {"name": "seqmc-sweep", "path": "/verif/mc/src/props/c06.rs", "serves_properties": ["C06"], "kind_free_text": "exhaustive finite sweeps (lengths, overwrite sequences) over the real Db"},
            {"name": "pagemc", "path": "/verif/mc/src/props/c19.rs", "serves_properties": ["C19"], "kind_free_text": "exhaustive enumeration of index pages x keys x start positions against both page-search implementations"},
            {"name": "crashmc", "path": "/verif/mc/src/crash.rs, /verif/mc/src/crashmc.rs", "serves_properties": ["C02", "C03", "C12", "C13"], "kind_free_text": "I/O trace recording by libc interposition + mmap store hook, shadow file system, exhaustive crash-image enumeration with recovery oracle"},
            {"name": "faultmc", "path": "/verif/mc/src/faultmc.rs", "serves_properties": ["C16"], "kind_free_text": "persistent I/O failure injected at every file-operation index of every step of every edge"},
            {"name": "admin", "path": "/verif/mc/src/props/c17.rs", "serves_properties": ["C17"], "kind_free_text": "exhaustive sweeps over option combinations, layouts and administration calls"},
            {"name": "handles", "path": "/verif/mc/src/props/c18.rs", "serves_properties": ["C18"], "kind_free_text": "exhaustive open/drop sequences, second-opener injection at I/O boundaries, holder process killed at every recovery step"},
            {"name": "migrate", "path": "/verif/mc/src/props/c20.rs", "serves_properties": ["C20"], "kind_free_text": "exhaustive sweep over migration configurations through the real migrate()"},
            {"name": "loommc", "path": "/verif/mc-loom", "serves_properties": ["C03", "C05", "C09", "C11", "C12", "C15", "C16"], "kind_free_text": "loom (vendored 0.5.6 with MAX_THREADS 8) over the real crate built with its loom feature; fresh OS thread per execution stepped through loom's checkpoint file"},
            {"name": "seqmc", "path": "/verif/mc", "serves_properties": sorted([k for k, v in CLAIMED.items() if "seqmc" in v[0]]),
             "kind_free_text": "bounded exhaustive graph search over histories x pipeline-stage schedules of the real Db in stepping mode, reference models, pipeline model PM in lock-step"},
        ],
        "checks": checks,
        "not_applicable": na,
        "notes": "See DESIGN.md. ./check <ID> <quick|thorough>; ./check replay <file>. Known findings: known_findings.jsonl.",
    }
    json.dump(m, open(os.path.join(ROOT, "MANIFEST.json"), "w"), indent=1)
    print("claimed:", [c["property_id"] for c in checks])

if __name__ == "__main__":
    main()
