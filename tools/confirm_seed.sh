#!/bin/bash
# usage: confirm_seed.sh <OUT-dir> <n> <worktree>
# Confirms in a scratch worktree: suite passes with mutant n; demo n fails with it and passes without.
out="$1"; n="$2"; wt="$3"
export CARGO_NET_OFFLINE=true CARGO_TARGET_DIR="$wt/target"
cd "$wt" || exit 2
git checkout -q -- . ; rm -f tests/demo_seed.rs
log="$out/confirm$n.log"; : > "$log"
cp "$out/demo$n.rs" tests/demo_seed.rs
echo "## demo without mutant" >> "$log"
cargo test --offline --features instrumentation --test demo_seed >> "$log" 2>&1; clean_rc=$?
git apply "$out/mutant$n.diff" || { echo "APPLY-FAILED" >> "$log"; exit 2; }
echo "## demo with mutant" >> "$log"
cargo test --offline --features instrumentation --test demo_seed >> "$log" 2>&1; mut_rc=$?
rm -f tests/demo_seed.rs
echo "## suite with mutant" >> "$log"
cargo test --workspace --no-fail-fast --offline >> "$log" 2>&1; suite_rc=$?
git checkout -q -- . 
echo "RESULT demo_clean_rc=$clean_rc demo_mutant_rc=$mut_rc suite_mutant_rc=$suite_rc" | tee -a "$log"
