#!/bin/bash
# Development helper: run ./check from a scratch copy of /verif against a clean scratch worktree of /repo (/tmp/dev/repo),
# for the times when /repo itself carries a seeded change (matrix runs). Not used by any registered check.
set -e
mkdir -p /tmp/dev/verif
rsync -a --delete --exclude .target --exclude .git --exclude evidence --exclude replays /verif/ /tmp/dev/verif/
sed -i 's|path = "/repo"|path = "/tmp/dev/repo"|' /tmp/dev/verif/mc/Cargo.toml /tmp/dev/verif/mc-loom/Cargo.toml
cd /tmp/dev/verif
export VERIF_OUT=${VERIF_OUT:-/dev/shm/devtrial}
exec ./check "$@"
