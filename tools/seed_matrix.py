#!/usr/bin/env python3
"""Run every seeded change against the relevant checks; record which checks catch it (meta.json + matrix.json)."""
import json, os, subprocess, sys, time, glob
ROOT = os.path.dirname(os.path.dirname(os.path.abspath(__file__)))  # the verif root this copy of the tool lives in (a vp-run snapshot works too)
EXTRA = {
 "C01-reindex-progress": ["C09"],
 "C12-queue-before-sync": ["C16"],
 "C14-btree-old-root-leaked": ["C04", "C06"],
 "C14-free-list-head-not-refreshed": ["C02", "C03"],
 "C03-replay-sort": ["C02"], "C03-refresh-metadata": ["C02"],
 "C10-init-before-replay": ["C02"],
 "C13-replay-sort-by-file-id": ["C02"],
 "R2-C05-dereference-unconditional-cleanup": ["C01"], "R2-C07-filled-not-refreshed": ["C02"],
 "R2-C16-validate-skips-newer-index": ["C09"], "R2-C01-cleanup-with-record-id": ["C09"],
 "R2-C09-drop-index-ignores-id": ["C02"], "R2-C15-cleanup-not-woken-while-files-queued": [],
 "R3-C03-replay-missing-new-index": ["C09"], "R3-C03-replayed-drop-index": ["C09"], "R3-C14-reindex-progress-stale-for-queued-index": ["C09"],
 "C11-deferral-skips-queue-scan": [], "C09-reindex-progress-not-reset": [],
 "R4-C05-overlay-clean-wrong-id-space": ["C01", "C09"], "R4-C01-freelist-reuse-header-not-dirty": ["C14", "C06"],
 "R4-C10-deferral-drops-root-ops": ["C11"], "R4-C07-reindex-progress-reset-moved": ["C09"],
 "R4-C06-replay-validate-exact-fit-rejected": ["C02"], "R4-C03-validate-exact-fit-rejected": ["C02"],
 "R4-C12-replay-order-by-log-id": ["C02"], "R4-C14-rc-release-frees-only-chain-head": ["C06", "C07"],
 "R5-C03-integrity-skip-refcount-width": ["C02", "C14"], "R5-C13-integrity-precheck-refcount-skip-width": ["C02"],
 "R5-C05-flushed-log-queue-sorted-by-file-id": ["C01"], "R5-C12-truncate-cleaned-logs-in-id-order": ["C16", "C02"],
 "R5-C02-read-end-of-log-push-front": ["C12"], "R5-C16-table-data-init-before-replay": ["C02", "C10"],
 "R5-C07-reindex-overflow-no-retry": ["C09"], "R5-C14-free-stack-reversed-on-open": ["C10"],
}
only = sys.argv[1:]
if only and only[0].startswith("prefix="):
    pres = only[0][7:].split(",")
    only = [os.path.basename(d.rstrip("/")) for d in glob.glob(ROOT + "/seeded/*/") if any(os.path.basename(d.rstrip("/")).startswith(pre) for pre in pres)]
out = json.load(open(ROOT + "/seeded/matrix.json")) if os.path.exists(ROOT + "/seeded/matrix.json") else {}
for d in sorted(glob.glob(ROOT + "/seeded/*/")):
    sid = os.path.basename(d.rstrip("/"))
    if only and sid not in only: continue
    meta = json.load(open(d + "meta.json"))
    props = [meta["property"]] + EXTRA.get(sid, [])
    res = []
    subprocess.run(["git", "-C", "/repo", "checkout", "--", "."])
    ap = subprocess.run(["git", "-C", "/repo", "apply", d + "patch.diff"], capture_output=True, text=True)
    if ap.returncode != 0:
        out[sid] = {"error": "patch does not apply: " + ap.stderr[:200]}
        print(sid, "PATCH-FAILS", flush=True); continue
    env = dict(os.environ, VERIF_OUT="/dev/shm/pdbmc-matrix")
    env.pop("PDBMC_ONLY", None)
    for p in props:
        t0 = time.time()
        r = subprocess.run([ROOT + "/check", p, "quick"], capture_output=True, text=True, env=env)
        viol = [l for l in r.stdout.splitlines() if l.startswith("VIOLATION")]
        detail = ""
        lines = r.stdout.splitlines()
        for i, l in enumerate(lines):
            if l.startswith("VIOLATION"):
                detail = " | ".join(x.strip() for x in lines[i+1:i+4])[:400]; break
        res.append({"check": p, "tier": "quick", "exit": r.returncode, "detected": r.returncode == 1 and bool(viol), "seconds": round(time.time() - t0), "first_report": detail})
        print(sid, p, "DETECTED" if res[-1]["detected"] else ("rc=%d" % r.returncode), "%ds" % res[-1]["seconds"], flush=True)
    subprocess.run(["git", "-C", "/repo", "checkout", "--", "."])
    meta["detected_by"] = [x["check"] + " quick" for x in res if x["detected"]]
    meta["trials"] = res
    json.dump(meta, open(d + "meta.json", "w"), indent=1)
    out[sid] = res
json.dump(out, open(ROOT + "/seeded/matrix.json", "w"), indent=1)
