#!/bin/bash
# usage: tools/try_mutant.sh <patch-file> <ID> [tier] ...   apply a patch to /repo, run checks, undo it.
# Evidence and replays of the trial go to /dev/shm/pdbmc-trial (never into /verif).
patch="$1"; shift
cd /repo || exit 2
if ! git diff --quiet; then echo "repo has uncommitted changes"; exit 2; fi
git apply "$patch" || { echo "patch does not apply"; exit 2; }
export VERIF_OUT=/dev/shm/pdbmc-trial
rm -rf $VERIF_OUT; mkdir -p $VERIF_OUT
tier="${TIER:-quick}"
for id in "$@"; do
	start=$(date +%s)
	/verif/check "$id" "$tier" > $VERIF_OUT/$id.log 2>&1
	rc=$?
	echo "== $id $tier rc=$rc ($(( $(date +%s) - start ))s)"
	grep -E "^VIOLATION|^KNOWN-FINDING|^MACHINERY" -A3 $VERIF_OUT/$id.log | cut -c1-220 | head -8
done
git -C /repo checkout -- . 
git -C /repo status --short | head -3
