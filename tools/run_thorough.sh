#!/bin/bash
# runs in the vp snapshot (cwd = snapshot of /verif)
export VERIF_OUT=/dev/shm/thorough
mkdir -p /dev/shm/thorough
for id in "$@"; do
  s=$(date +%s)
  ./check $id thorough > /dev/shm/thorough/$id.log 2>&1
  echo "$id rc=$? $(( $(date +%s)-s ))s viol=$(grep -c '^VIOLATION' /dev/shm/thorough/$id.log) known=$(grep -c '^KNOWN' /dev/shm/thorough/$id.log) capped=$(grep -c CAPPED /dev/shm/thorough/$id.log)" >> /dev/shm/thorough/summary.txt
done
echo ALLDONE >> /dev/shm/thorough/summary.txt
