#!/bin/bash
# runs in a vp snapshot (cwd = snapshot of /verif): thorough tier of the given checks, one after the other.
# An item is ID or ID:FILTER (FILTER = PDBMC_ONLY, a substring of the scenario names to run).
# With `vp run --with-repo` the harness is pointed at the run's own copy of the repository ($VP_RUN_REPO), so that
# /repo itself is free for something else (a seed matrix) in the meantime. Results are for information only:
# evidence always comes from ./check run in /verif against /repo.
tag=${TAG:-thorough}
export VERIF_OUT=/dev/shm/$tag
mkdir -p /dev/shm/$tag
if [ -n "$VP_RUN_REPO" ]; then
  sed -i "s|path = \"/repo\"|path = \"$VP_RUN_REPO\"|" mc/Cargo.toml mc-loom/Cargo.toml
fi
for item in "$@"; do
  id=${item%%:*}; only=""
  if [ "$id" != "$item" ]; then only=${item#*:}; fi
  s=$(date +%s)
  if [ -n "$only" ]; then PDBMC_ONLY="$only" ./check $id thorough > /dev/shm/$tag/$id.log 2>&1; else ./check $id thorough > /dev/shm/$tag/$id.log 2>&1; fi
  echo "$item rc=$? $(( $(date +%s)-s ))s viol=$(grep -c '^VIOLATION' /dev/shm/$tag/$id.log) machinery=$(grep -c 'MACHINERY' /dev/shm/$tag/$id.log) known=$(grep -c '^KNOWN' /dev/shm/$tag/$id.log) capped=$(grep -c CAPPED /dev/shm/$tag/$id.log)" | tee -a /dev/shm/$tag/summary.txt
done
echo ALLDONE >> /dev/shm/$tag/summary.txt
