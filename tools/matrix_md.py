#!/usr/bin/env python3
"""Render the seeded-change matrix (DESIGN.md §6.1) from seeded/*/meta.json."""
import json, glob, os
rows = []
for d in sorted(glob.glob("/verif/seeded/*/")):
    sid = os.path.basename(d.rstrip("/"))
    m = json.load(open(d + "meta.json"))
    tr = m.get("trials", [])
    det = [t["check"] for t in tr if t.get("detected")]
    miss = [t["check"] for t in tr if not t.get("detected")]
    rep = next((t["first_report"] for t in tr if t.get("detected")), "")
    rep = rep.replace("|", "/")
    # keep the failure line only
    parts = [p.strip() for p in rep.split(" / ") if p.strip()]
    short = parts[-1][:150] if parts else ""
    rows.append((sid, m["property"], ", ".join(det) or "—", ", ".join(miss) or "", short))
out = ["| seeded change | property | caught by (quick tier) | ran without catching | first report |", "|---|---|---|---|---|"]
for r in rows:
    out.append("| `%s` | %s | %s | %s | %s |" % r)
n = len(rows); c = sum(1 for r in rows if r[2] != "—")
out.append("")
out.append(f"{c} of {n} seeded changes are caught by at least one quick check.")
print("\n".join(out))
