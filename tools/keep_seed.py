#!/usr/bin/env python3
"""keep_seed.py <seed-id> <OUT-dir> <n> <property> <needs-text>: store a confirmed seeded change under /verif/seeded/."""
import sys, os, shutil, json, re
sid, out, n, prop, needs = sys.argv[1:6]
d = f"/verif/seeded/{sid}"
os.makedirs(d, exist_ok=True)
shutil.copy(f"{out}/mutant{n}.diff", f"{d}/patch.diff")
shutil.copy(f"{out}/demo{n}.rs", f"{d}/demo.rs")
log = open(f"{out}/confirm{n}.log").read()
res = re.findall(r"RESULT (.*)", log)[-1]
tests = re.findall(r"test result: (.*?)\.\s", log)
meta = {
    "id": sid, "property": prop, "origin": "independent sub-agent given only the property text and a scratch worktree",
    "needs_to_manifest": needs,
    "confirmed_in_scratch_worktree": {
        "commands": ["cargo test --offline --features instrumentation --test demo_seed   (demo without the change: must pass)",
                     "git apply patch.diff; cargo test --offline --features instrumentation --test demo_seed   (must fail)",
                     "cargo test --workspace --no-fail-fast --offline   (existing suite with the change: must pass 36/36)"],
        "result": res, "test_result_lines": tests[:6]},
    "detected_by": [],
}
json.dump(meta, open(f"{d}/meta.json", "w"), indent=1)
print("kept", sid, res)
